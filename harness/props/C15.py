"""C15 — cache keys separate every distinct call and only those.
Model: lean/RedunModel/Model/Keys.lean (+ Model/Pre.lean); theorems: lean/RedunModel/Props/C15.lean."""
import inspect
import os
import re

from core import REPO
from props._preimage import HashLog, hx

ID = "C15"
READY = True
LEAN_MODULES = ["RedunModel.Props.C15", "RedunModel.Model.PreRender"]
LEAN_DRIVERS = ["C15"]
THEOREMS = [
    "RedunModel.C15.key_separates_task",
    "RedunModel.C15.key_separates_positional",
    "RedunModel.C15.key_changes_positional",
    "RedunModel.C15.key_separates_keyword",
    "RedunModel.C15.key_stable_keyword_order",
    "RedunModel.C15.key_stable_positional",
    "RedunModel.C15.key_stable_keyword_values",
    "RedunModel.C15.key_stable_default_by_keyword",
    "RedunModel.C15.tags_distinct",
    "RedunModel.C15.ne_of_leadTag_ne",
    "RedunModel.C15.evalKey_tag",
    "RedunModel.C15.refuted_old_variadic_zipped_with_kwonly_config",
    "RedunModel.C15.fixed_variadic_separated",
    "RedunModel.C15.refuted_old_kwonly_default_after_varargs",
    "RedunModel.C15.fixed_kwonly_default_merged",
]
TRUSTED = [
    "text elements of a hashed structure (names, source text, versions) are assumed never to coincide with a hex digest",
    "hashes are symbolic pre-images: hash_struct is modelled as a perfect hash, TypeRegistry.get_hash as an injective "
    "labelling of values (SHA-512/160 collisions and pickle are outside the claim; C14 covers the byte encoding)",
    "modelled, not verified: inspect.signature parameter kinds and order, Python's binding of positional arguments to "
    "positional parameters then *args, dict insertion order / key uniqueness, `{**a, **b}`, sorted() of dict items in bencode",
    "the composition get_arg_defaults -> {**defaults, **kwargs} -> hash_args_eval is the one in Scheduler._evaluate/_exec_job; "
    "the bulk of the cases call the three functions directly in that order, a sample runs through a real Scheduler",
]
ASSUMPTIONS = [
    "parameter names of a signature are unique and keyword names of a call are unique (Python guarantees both)",
    "separation is claimed for an argument whose value is not a JobInfo before and after the change, in calls with the "
    "same number of positional arguments and JobInfo values at the same positions (key_separates_positional) / for a "
    "keyword passed in both calls (key_separates_keyword)",
    "a `**kwargs` parameter listed in config_args is outside the oracle (the statement does not say whether its entries "
    "are config values); such signatures are still compared with the model",
    "argument values are plain picklable values (ints, strs, tuples, and the look-alikes 0/0.0/-0.0/False, 1/1.0/True, 2/2.0, "
    "which count as different values) or JobInfo instances; Handles/Files (preprocessing) "
    "are not generated",
]
RULE = ("signatures generated over all five parameter kinds (<= 7 parameters, defaults, config_args subsets, JobInfo "
        "defaults) as real functions built with exec and wrapped in redun.task.Task; calls generated from Python's own "
        "binding rules plus a malformed stream (surplus positionals / unknown keywords); a fifth of the calls go to the same "
        "signature wrapped by wraps_task (Task.signature = inner signature) with extra keywords that only the wrapper function takes; every case is keyed by the real "
        "get_arg_defaults + hash_args_eval (hash_struct wrapped to log the structures hashed) and by the Lean model and the "
        "pre-images compared; then one mutation per kind is applied (positional value, keyword value, keyword order, "
        "default passed by keyword, config value, JobInfo swap, wrapper-only keyword value, task version) and the real keys compared with what the "
        "property demands. distinct = distinct (signature, config_args, call) triples; a call of a parameterless task is trivial")
LEVEL_TEXT = ("Proved for all signatures, config_args and calls (no size bound) on the model of the repaired code: a different task "
              "hash, a changed non-config non-JobInfo positional argument (named or variadic slot) or keyword argument changes "
              "the eval key (key_separates_task/_positional/_keyword, key_changes_positional); keyword order, config values, "
              "JobInfo placeholders and a default passed by keyword leave eval and args hash unchanged (key_stable_*); the "
              "record tags are pairwise distinct (tags_distinct). All full strength. refuted_old_* are closed witnesses "
              "on the model of the code before the repair (variadic value zipped with a keyword-only config name; default "
              "of a keyword-only parameter skipped after *args). Tie: pre-images of real keys compared with the model on "
              "generated signatures/calls; oracle = the statement applied to pairs of real keys; end-to-end sample through a Scheduler.")
LEVEL_NOTE = ("The model mirrors the code WITH the proposed repair(s) (harness/findings_proposed/C15-*.fix.diff); on a tree "
              "without them the check reports VIOLATION with concrete replays, by design. Hashes are compared as pre-images (perfect-hash assumption). Python's argument binding and inspect.signature are "
              "modelled. Positional-vs-keyword passing of the same parameter is not claimed to give one key (the statement "
              "does not list it). Values needing preprocessing (Handles) are not modelled.")
TECHNIQUE = "Lean 4 proof on a hand-written model of get_arg_defaults/hash_args_eval + pre-image correspondence + mutation oracle"

KINDS = {"POSITIONAL_ONLY": "PO", "POSITIONAL_OR_KEYWORD": "PK", "VAR_POSITIONAL": "VP", "KEYWORD_ONLY": "KO", "VAR_KEYWORD": "VK"}
TASK_LABEL = "s" + hx("TASK")


# ------------------------------------------------------------------ values
class Vals:
    """label -> value; JobInfo values get labels >= 1000"""

    def __init__(self):
        from redun.scheduler import JobInfo
        self.JobInfo = JobInfo
        self.ji = {}

    def plain(self, n):
        if n in LOOK:
            return LOOK[n]
        r = n % 3
        return n if r == 0 else ("v%d" % n if r == 1 else (n, "t"))

    def jobinfo(self, k):
        if k not in self.ji:
            self.ji[k] = self.JobInfo() if k == 0 else self.JobInfo(execution_id="e%d" % k, job_id="j%d" % k,
                                                                    eval_hash="x", args_hash="y")
        return self.ji[k]

    def value(self, a):
        h, ji = a
        return self.jobinfo(h - 1000) if ji else self.plain(h)


# look-alike argument values: equal under Python == / hash() but different values (type- and sign-aware), different pickles
LOOK = {391: 0, 392: 0.0, 393: -0.0, 394: False, 395: 1, 396: 1.0, 397: True, 398: 2, 399: 2.0}
LOOK_FAMILIES = [[391, 392, 393, 394], [395, 396, 397], [398, 399]]


def fresh_plain(rng):
    if rng.random() < 0.12:
        return (rng.choice(sorted(LOOK)), False)
    return (rng.randrange(1, 391), False)


def fresh_other(rng, old):
    """a value with another hash than `old`; for a look-alike value usually one of its look-alikes (0 -> False, 1 -> 1.0 ...)"""
    for fam in LOOK_FAMILIES:
        if old[0] in fam and rng.random() < 0.7:
            return (rng.choice([x for x in fam if x != old[0]]), False)
    new = fresh_plain(rng)
    while new[0] == old[0]:
        new = fresh_plain(rng)
    return new


def gen_arg(rng, p_ji=0.08):
    if rng.random() < p_ji:
        return (1000 + rng.randrange(0, 3), True)
    return fresh_plain(rng)


# ------------------------------------------------------------------ signatures
NAMES = ["a", "b", "c", "d", "x", "y", "cfg", "opt", "n", "job_info"]


def gen_sig(rng):
    names = rng.sample(NAMES, 6)
    npo = rng.choice([0, 0, 0, 1, 2])
    npk = rng.choice([0, 1, 1, 2, 3])
    vp = rng.random() < 0.55
    nko = rng.choice([0, 0, 1, 1, 2])
    vk = rng.random() < 0.3
    params = []
    seen_default = False
    for i in range(npo + npk):
        if len(params) >= 5:
            break
        has_def = seen_default or rng.random() < 0.35
        seen_default = has_def
        params.append([names.pop(), "PO" if i < npo else "PK", gen_arg(rng, 0.1) if has_def else None])
    if vp:
        params.append([rng.choice(["rest", "args"]), "VP", None])
    for _ in range(nko):
        if len(params) >= 6:
            break
        params.append([names.pop(), "KO", gen_arg(rng, 0.1) if rng.random() < 0.7 else None])
    if vk:
        params.append([rng.choice(["kw", "kwargs"]), "VK", None])
    cands = [p[0] for p in params]
    cfg = [n for n in cands if rng.random() < (0.6 if n == "cfg" else 0.3)]
    rng.shuffle(cfg)
    return params, cfg


def sig_src(params):
    parts, seen_po, star = [], False, False
    po = [p for p in params if p[1] == "PO"]
    for p in params:
        n, k, d = p
        if k == "VP":
            parts.append("*" + n)
            star = True
            continue
        if k == "VK":
            parts.append("**" + n)
            continue
        if k == "KO" and not star:
            parts.append("*")
            star = True
        parts.append(n + ("=_d[%r]" % n if d is not None else ""))
        if k == "PO" and p is po[-1]:
            parts.append("/")
    return "def fn(" + ", ".join(parts) + "):\n    return 0\n"


def build_task(params, cfg, vals, version=None):
    from redun.task import Task
    src = sig_src(params)
    env = {"_d": {p[0]: vals.value(p[2]) for p in params if p[2] is not None}}
    exec(src, env)
    return Task(env["fn"], name="fn", namespace="verif_c15", version=version, source=src,
                task_options_base={"config_args": list(cfg)} if cfg is not None else {})


WRAPPER_KW = ("factor", "copies")     # keywords of the wraps_task wrapper function only (not in the task's signature)
_wcount = [0]


def build_wrapped_task(params, cfg, vals, version=None):
    """A wraps_task task (default use_wrapper_signature=False): Task.signature is the inner function's signature,
    the function that runs is the wrapper, which takes the keywords WRAPPER_KW of its own."""
    from redun.task import Task, get_task_registry, wraps_task
    src = sig_src(params)
    env = {"_d": {p[0]: vals.value(p[2]) for p in params if p[2] is not None}}
    exec(src, env)
    _wcount[0] += 1
    inner = Task(env["fn"], name="wfn%d" % _wcount[0], namespace="verif_c15", source=src)
    get_task_registry().add(inner)
    opts = {"config_args": list(cfg)} if cfg else {}

    @wraps_task(wrapper_name="_c15w", version=version, **opts)
    def _c15w(inner_task):
        def do_wrapped(*task_args, factor=1, copies=1, **task_kwargs):
            return [factor, copies, inner_task.func(*task_args, **task_kwargs)]

        return do_wrapped

    t = _c15w(inner)
    t.signature            # resolve (and cache) the inner signature now
    return t


def build_any(params, cfg, vals, version, wkw):
    return build_task(params, cfg, vals, version) if wkw is None else build_wrapped_task(params, cfg, vals, version)


def without(kw, names):
    """keywords as an item list or dict, minus the wrapper-only ones"""
    if not names:
        return kw
    if isinstance(kw, dict):
        return {k: v for k, v in kw.items() if k not in names}
    return [(k, v) for k, v in kw if k not in names]


def gen_call(rng, params, malformed=False):
    pos = [p for p in params if p[1] in ("PO", "PK")]
    has_vp = any(p[1] == "VP" for p in params)
    has_vk = any(p[1] == "VK" for p in params)
    # number of positional arguments
    npos = rng.randrange(0, len(pos) + 1)
    # required positional-only must be positional
    req_po = sum(1 for p in pos if p[1] == "PO" and p[2] is None)
    npos = max(npos, req_po)
    extra = 0
    if has_vp and (npos == len(pos)) and rng.random() < 0.8:
        extra = rng.choice([1, 1, 2, 3])
    if malformed and rng.random() < 0.5:
        extra = rng.choice([1, 2])
        npos = len(pos)
    args = [gen_arg(rng) for _ in range(npos + extra)]
    kw = []
    for i, p in enumerate(params):
        n, k, d = p
        if k == "PK" and i >= npos:
            if d is None or rng.random() < 0.4:
                kw.append((n, gen_arg(rng)))
        elif k == "KO":
            if d is None or rng.random() < 0.4:
                kw.append((n, gen_arg(rng)))
    if has_vk and rng.random() < 0.7:
        for n in rng.sample(["k1", "k2", "zz"], rng.choice([1, 2])):
            kw.append((n, gen_arg(rng)))
    if malformed and rng.random() < 0.5:
        kw.append(("unknown", gen_arg(rng)))
    rng.shuffle(kw)
    return args, kw


# ------------------------------------------------------------------ protocol
def sx_arg(a):
    return "(i%d %s)" % (a[0], "T" if a[1] else "F")


def sx_sig(params):
    return "(sig" + "".join(" (s%s %s %s)" % (hx(n), k, "N" if d is None else sx_arg(d)) for n, k, d in params) + ")"


def sx_kw(kw):
    return "(kw" + "".join(" (s%s i%d %s)" % (hx(k), a[0], "T" if a[1] else "F") for k, a in kw) + ")"


def key_req(op, params, cfg, args, kw):
    return "%s %s (cfg%s) %s (args%s) %s" % (op, TASK_LABEL, "".join(" s" + hx(c) for c in cfg), sx_sig(params),
                                             "".join(" " + sx_arg(a) for a in args), sx_kw(kw))


# ------------------------------------------------------------------ the real code
class Real:
    def __init__(self):
        from redun.scheduler import get_arg_defaults
        from redun.task import hash_args_eval
        from redun.value import get_type_registry
        self.get_arg_defaults = get_arg_defaults
        self.hash_args_eval = hash_args_eval
        self.reg = get_type_registry()
        self.vals = Vals()
        self.log = HashLog()

    def label(self, a):
        v = self.vals.value(a)
        self.log.leaf_value(self.reg.get_hash(v), a[0])
        return v

    def key(self, task, args, kw):
        """(eval_hash, args_hash, defaults) exactly as Scheduler._evaluate + _exec_job compute them"""
        rargs = tuple(self.label(a) for a in args)
        rkw = {k: self.label(a) for k, a in kw}
        defaults = self.get_arg_defaults(task, rargs, rkw)
        merged = {**defaults, **rkw}
        e, a = self.hash_args_eval(self.reg, task, rargs, merged)
        return e, a, defaults

    def render_key(self, task, e, a):
        self.log.opaque[task.hash] = TASK_LABEL
        return self.log.render(e) + " " + self.log.render(a)


def bound_slot_positional(task, args, kw, i):
    """name and kind of the parameter positional argument i binds to, by Python's own rules"""
    sig = task.signature
    marker = object()
    a2 = list(args)
    a2[i] = marker
    try:
        ba = sig.bind(*a2, **dict(kw))
    except TypeError:
        return None
    for name, v in ba.arguments.items():
        if v is marker:
            return name, sig.parameters[name].kind.name
        if isinstance(v, tuple) and any(x is marker for x in v):
            return name, sig.parameters[name].kind.name
    return None


def bound_slot_keyword(task, args, kw, k):
    sig = task.signature
    marker = object()
    k2 = dict(kw)
    k2[k] = marker
    try:
        ba = sig.bind(*args, **k2)
    except TypeError:
        return None
    for name, v in ba.arguments.items():
        if v is marker:
            return name, sig.parameters[name].kind.name
        if isinstance(v, dict) and any(x is marker for x in v.values()):
            return name, sig.parameters[name].kind.name
    return None


def case_repr(params, cfg, args, kw, extra=None, wkw=None):
    d = {"def": sig_src(params).split("\n")[0], "config_args": list(cfg), "params": params, "args": args, "kwargs": kw}
    if wkw is not None:
        d["wraps_task"] = "task wrapped by wraps_task (signature = the def above); wrapper: def do_wrapped(*task_args, factor=1, copies=1, **task_kwargs)"
        d["wrapper_keywords"] = list(wkw)
    if extra:
        d.update(extra)
    return d


def mutations(rng, real, task, params, cfg, args, kw, wkw=None):
    """yield (kind, expect_same: bool|None, args2, kw2, task2, detail); `wkw`: keywords consumed by a wraps_task wrapper"""
    wkw = tuple(wkw or ())
    vk_cfg = any(p[1] == "VK" and p[0] in cfg for p in params)
    # positional value
    for i in range(len(args)):
        slot = bound_slot_positional(task, [real.vals.value(a) for a in args], {k: real.vals.value(a) for k, a in without(kw, wkw)}, i)
        if slot is None:
            continue
        name, kind = slot
        old = args[i]
        new = fresh_other(rng, old)
        a2 = list(args)
        a2[i] = new
        if old[1]:
            # JobInfo -> JobInfo swap must be invisible; JobInfo -> plain value is not covered by the statement
            sw = (1000 + (old[0] - 1000 + 1) % 3, True)
            a3 = list(args)
            a3[i] = sw
            yield ("jobinfo-swap-positional-" + ("variadic" if kind == "VAR_POSITIONAL" else "named"), True, a3, kw, task,
                   {"index": i, "slot": name})
            continue
        if name in cfg:
            yield ("config-value-positional-" + ("variadic" if kind == "VAR_POSITIONAL" else "named"), True, a2, kw, task,
                   {"index": i, "slot": name})
        else:
            yield ("value-positional-" + ("variadic" if kind == "VAR_POSITIONAL" else "named"), False, a2, kw, task,
                   {"index": i, "slot": name})
    # keyword value
    for j, (k, old) in enumerate(kw):
        if k in wkw:
            # an argument actually passed to the running (wrapper) function, although not in Task.signature
            if old[1]:
                k3 = list(kw)
                k3[j] = (k, (1000 + (old[0] - 1000 + 1) % 3, True))
                yield ("jobinfo-swap-keyword-wrapper-only", True, args, k3, task, {"keyword": k})
            else:
                new = fresh_other(rng, old)
                k2 = list(kw)
                k2[j] = (k, new)
                yield ("value-keyword-wrapper-only", False, args, k2, task, {"keyword": k, "slot": "wrapper function"})
            continue
        slot = bound_slot_keyword(task, [real.vals.value(a) for a in args], {kk: real.vals.value(a) for kk, a in without(kw, wkw)}, k)
        if slot is None:
            continue
        name, kind = slot
        new = fresh_other(rng, old)
        k2 = list(kw)
        k2[j] = (k, new)
        if old[1]:
            k3 = list(kw)
            k3[j] = (k, (1000 + (old[0] - 1000 + 1) % 3, True))
            yield ("jobinfo-swap-keyword", True, args, k3, task, {"keyword": k, "slot": name})
            continue
        if kind == "VAR_KEYWORD":
            if vk_cfg:
                continue            # outside the oracle, see ASSUMPTIONS
            yield ("value-keyword-varkw", False, args, k2, task, {"keyword": k, "slot": name})
        elif name in cfg:
            yield ("config-value-keyword", True, args, k2, task, {"keyword": k, "slot": name})
        else:
            yield ("value-keyword", False, args, k2, task, {"keyword": k, "slot": name})
    # keyword order
    if len(kw) >= 2:
        k2 = list(kw)
        while k2 == list(kw):
            rng.shuffle(k2)
        yield ("keyword-order", True, args, k2, task, {})
    # default passed by keyword
    npos_params = sum(1 for p in params if p[1] in ("PO", "PK"))
    kwnames = {k for k, _ in kw}
    for i, (n, k, d) in enumerate(params):
        if d is None or k == "PO" or n in kwnames:
            continue
        if k == "PK" and i < len(args):
            continue
        after_varargs = (k == "KO" and i < len(args))
        yield ("default-by-keyword-" + ("kwonly-after-varargs" if after_varargs else ("kwonly" if k == "KO" else "positional")),
               True, args, list(kw) + [(n, d)], task, {"param": n})
    # task hash
    yield ("task-version", False, args, kw, "other-task", {})


def run(ctx):
    rng = ctx.rng
    real = Real()
    # ---- record tags: model table vs literals in the source
    src_tags = set()
    for f in ("hashing.py", "task.py", "expression.py", "handle.py"):
        txt = open(os.path.join(REPO, "redun", f), encoding="utf-8").read()
        src_tags |= set(re.findall(r'hash_struct\(\s*\[\s*"([A-Za-z]+)"', txt))
    model_tags = set()
    for t in ctx.model("C15", ["tags"])[0].split():
        model_tags.add(bytes.fromhex(t[1:]).decode())
    ctx.case(key="tags", sample={"source_tags": sorted(src_tags)}, part="tag-table")
    if src_tags != model_tags:
        ctx.mismatch("record tag table differs from the hash_struct([\"Tag\", ...]) literals in hashing/task/expression/handle.py",
                     case="tags", model=sorted(model_tags), impl=sorted(src_tags))

    # ---- cases
    corpus = [
        # F8: def g(*rest, cfg=1), config_args=["cfg"]: g(1,2,3) vs g(1,5,3)
        ([["rest", "VP", None], ["cfg", "KO", (1, False)]], ["cfg"], [(1, False), (2, False), (3, False)], []),
        ([["a", "PK", None], ["rest", "VP", None], ["cfg", "KO", (1, False)]], ["cfg"], [(1, False), (2, False), (3, False)], []),
        # twin in get_arg_defaults: def k(*rest, kk=1): k(1,2) vs k(1,2,kk=1)
        ([["rest", "VP", None], ["kk", "KO", (1, False)]], [], [(1, False), (2, False)], []),
        # JobInfo in the variadic tail
        ([["a", "PK", None], ["rest", "VP", None]], [], [(1, False), (1000, True), (3, False)], []),
        # the shape of redun's own _subrun_root_task
        ([["expr", "PK", None], ["config", "PK", None], ["new_execution", "PK", (3, False)], ["job_info", "PK", (1000, True)]],
         ["config"], [(4, False), (5, False)], []),
        ([["a", "PK", None], ["b", "PK", (2, False)]], [], [(1, False)], []),
        ([["a", "PK", None], ["b", "PK", (2, False)]], ["b"], [(1, False), (7, False)], []),
        ([["a", "PO", None], ["b", "PK", None], ["kw", "VK", None]], [], [(1, False)], [("b", (2, False)), ("zz", (3, False)), ("k1", (4, False))]),
        ([["rest", "VP", None]], ["rest"], [(1, False), (2, False)], []),
        ([], [], [], []),
    ]
    cases = [(p, c, a, k, False, None) for p, c, a, k in corpus]
    # wraps_task tasks called with keywords of the wrapper function (not in Task.signature)
    wx = [["x", "PK", None], ["y", "PK", (2, False)]]
    cases += [
        (wx, [], [(1, False)], [("factor", (2, False))], False, WRAPPER_KW),
        (wx, [], [(1, False)], [("y", (2, False)), ("factor", (3, False)), ("copies", (4, False))], False, WRAPPER_KW),
        (wx, ["y"], [(1, False), (5, False)], [("copies", (4, False))], False, WRAPPER_KW),
        ([["a", "PK", None], ["kw", "VK", None]], [], [(1, False)], [("zz", (3, False)), ("factor", (2, False))], False, WRAPPER_KW),
        ([["rest", "VP", None], ["cfg", "KO", (1, False)]], ["cfg"], [(1, False), (2, False)], [("factor", (2, False))], False, WRAPPER_KW),
        ([], [], [], [("factor", (1000, True))], False, WRAPPER_KW),
    ]
    for i in range(ctx.n(700, 20000)):
        params, cfg = gen_sig(rng)
        for _ in range(rng.choice([1, 2])):
            mal = (i % 10 == 0)
            args, kw = gen_call(rng, params, malformed=mal)
            wkw = None
            if not mal and rng.random() < 0.2:
                # the same call on a wraps_task task, plus keywords that only the wrapper function takes
                wkw = WRAPPER_KW
                kw = list(kw)
                for name in rng.sample(WRAPPER_KW, rng.choice([1, 1, 2])):
                    kw.insert(rng.randrange(len(kw) + 1), (name, gen_arg(rng)))
            cases.append((params, cfg, args, kw, mal, wkw))

    with real.log:
        plan = []       # (case, [requests], callbacks)
        reqs = []
        reqs_slot, slot_expect = [], []
        for params, cfg, args, kw, mal, wkw in cases:
            try:
                task = build_any(params, cfg, real.vals, "1", wkw)
                other = build_any(params, cfg, real.vals, "2", wkw)
            except (SyntaxError, ValueError) as e:       # generator produced an impossible signature
                ctx.count("skipped", type(e).__name__)
                continue
            assert [(p.name, KINDS[p.kind.name]) for p in task.signature.parameters.values()] == [(p[0], p[1]) for p in params], \
                "harness: generated signature does not match inspect.signature"
            valid = True
            try:
                task.signature.bind(*[real.vals.value(a) for a in args], **{k: real.vals.value(a) for k, a in without(kw, wkw)})
            except TypeError:
                valid = False
            for p in params:
                if p[2] is not None:
                    real.label(p[2])
            e, a, defaults = real.key(task, args, kw)
            impl = real.render_key(task, e, a)
            impl_def = sorted(defaults)
            muts = []
            if valid:
                for kind, same, a2, k2, t2, detail in mutations(rng, real, task, params, cfg, args, kw, wkw):
                    tt = other if t2 == "other-task" else task
                    e2, ah2, _ = real.key(tt, a2, k2)
                    muts.append((kind, same, a2, k2, detail, e2, ah2, tt is other))
            # Python's own binding of each positional argument vs the model's slotOfPos (used by the theorems)
            slots = []
            if valid:
                rv = [real.vals.value(x) for x in args]
                rk = {k: real.vals.value(x) for k, x in without(kw, wkw)}
                for i in range(len(args)):
                    bs = bound_slot_positional(task, rv, rk, i)
                    slots.append(bs[0] if bs else None)
                    reqs_slot.append("slot %s i%d" % (sx_sig(params), i))
                    slot_expect.append((params, i, bs[0] if bs else None))
            reqs.append(key_req("key", params, cfg, args, kw))
            reqs.append(key_req("keyold", params, cfg, args, kw))
            reqs.append("defaults %s i%d %s" % (sx_sig(params), len(args), sx_kw(kw)))
            plan.append((params, cfg, args, kw, mal, valid, impl, impl_def, e, a, muts, wkw))
        out = ctx.model("C15", reqs)
        out_slot = ctx.model("C15", reqs_slot)
    for (params, i, want), got in zip(slot_expect, out_slot):
        ctx.count("slot-binding", "variadic" if any(p[0] == want and p[1] == "VP" for p in params) else "named")
        w = "N" if want is None else "s" + hx(want)
        if got != w:
            ctx.mismatch("inspect.Signature.bind binds positional argument %d to another parameter than the model's slotOfPos" % i,
                         case={"def": sig_src(params).split("\n")[0], "index": i}, model=got, impl=w)

    old_tree = 0
    for idx, (params, cfg, args, kw, mal, valid, impl, impl_def, e, a, muts, wkw) in enumerate(plan):
        mo, mo_old, mo_def = out[3 * idx], out[3 * idx + 1], out[3 * idx + 2]
        kinds = "".join(sorted({p[1] for p in params}))
        trivial = not params
        ctx.case(key=None if trivial else (repr(params), tuple(cfg), repr(args), repr(kw), wkw is not None),
                 sample={"def": sig_src(params).split("\n")[0], "config_args": cfg, "args": args, "kwargs": kw, "key": impl[:160]},
                 nparams=len(params), kinds=kinds or "-", valid="valid" if valid else "malformed",
                 task="plain" if wkw is None else "wraps_task+%d wrapper keyword(s)" % sum(1 for k, _ in kw if k in wkw), nargs=len(args), nkw=len(kw),
                 ncfg=len(cfg))
        if mo != impl:
            if mo_old == impl:
                old_tree += 1
            ctx.mismatch("eval/args pre-image of the real key differs from the model" +
                         (" (the real code matches the model of the code BEFORE the proposed repair)" if mo_old == impl else ""),
                         case=case_repr(params, cfg, args, kw, wkw=wkw), model=mo, impl=impl)
        md = sorted(bytes.fromhex(x[1:]).decode() for x in re.findall(r"\((s[0-9a-f]*) ", mo_def))
        if md != impl_def:
            ctx.mismatch("get_arg_defaults keys differ from the model", case=case_repr(params, cfg, args, kw, wkw=wkw), model=md, impl=impl_def)
        # ---- the property's oracle on the real keys
        for kind, same, a2, k2, detail, e2, ah2, is_other in muts:
            ctx.count("mutation", kind)
            if same is True and (e2 != e or ah2 != a):
                ctx.violation("C15-key-unstable-" + kind,
                              "calls that differ only in " + kind + " get different eval/args hashes",
                              case=case_repr(params, cfg, args, kw, {"mutated_args": a2, "mutated_kwargs": k2, "mutation": kind, **detail}, wkw=wkw),
                              expected="equal eval_hash and args_hash", actual="different")
            if same is False and e2 == e:
                ctx.violation("C15-key-collision-" + kind,
                              "calls that differ in " + kind + " (not a config argument, not a JobInfo) get the same eval hash",
                              case=case_repr(params, cfg, args, kw, {"mutated_args": a2, "mutated_kwargs": k2, "mutation": kind, **detail}, wkw=wkw),
                              expected="different eval_hash", actual="equal")
    if old_tree:
        ctx.note("%d case(s): the real code matches the model of the code before the proposed repair "
                 "(findings_proposed/C15-variadic-binding.fix.diff not applied?)" % old_tree)
    end_to_end(ctx, rng)


# ------------------------------------------------------------------ end to end through a Scheduler
def end_to_end(ctx, rng):
    """The scheduler's own composition: run two calls in one Scheduler and look at what was executed."""
    import logging
    from redun import Scheduler, task
    logging.getLogger("redun").setLevel(logging.ERROR)
    ran = []

    @task(name="e2e_g", namespace="verif_c15", config_args=["cfg"], version="1")
    def e2e_g(*rest, cfg=1):
        ran.append(("g", rest, cfg))
        return list(rest)

    @task(name="e2e_k", namespace="verif_c15", version="1")
    def e2e_k(*rest, kk=1):
        ran.append(("k", rest, kk))
        return [list(rest), kk]

    @task(name="e2e_f", namespace="verif_c15", config_args=["c"], version="1")
    def e2e_f(a, b=2, *rest, c=3, d=4):
        ran.append(("f", a, b, rest, c, d))
        return [a, b, list(rest), d]

    from redun.task import wraps_task

    def scaled_task():
        @wraps_task()
        def _scaled_task(inner_task):
            def do_scale(*task_args, factor=1, **task_kwargs):
                return factor * inner_task.func(*task_args, **task_kwargs)

            return do_scale

        return _scaled_task

    @scaled_task()
    @task(name="e2e_base", namespace="verif_c15", version="1")
    def e2e_base(x, y=0):
        ran.append(("base", x, y))
        return x + y

    plans = [
        ("wrapper-only keyword of a wraps_task task", e2e_base, (1,), {"factor": 2}, (1,), {"factor": 3}, False),
        ("inner default passed explicitly next to a wrapper-only keyword", e2e_base, (1,), {"factor": 2}, (1,), {"y": 0, "factor": 2}, True),
        ("variadic value after *rest with keyword-only config", e2e_g, (1, 2, 3), {}, (1, 5, 3), {}, False),
        ("config value by keyword", e2e_g, (1, 2), {"cfg": 7}, (1, 2), {"cfg": 8}, True),
        ("keyword-only default passed explicitly after *rest", e2e_k, (1, 2), {}, (1, 2), {"kk": 1}, True),
        ("named default passed explicitly", e2e_f, (1,), {}, (1,), {"b": 2}, True),
        ("keyword order", e2e_f, (1,), {"d": 5, "c": 9}, (1,), {"c": 9, "d": 5}, True),
        ("variadic value", e2e_f, (1, 2, 3, 4), {}, (1, 2, 3, 5), {}, False),
        ("keyword-only non-config value", e2e_f, (1,), {"d": 5}, (1,), {"d": 6}, False),
    ]
    for what, t, a1, k1, a2, k2, same in plans:
        s = Scheduler()
        del ran[:]
        r1 = s.run(t(*a1, **k1))
        n1 = len(ran)
        r2 = s.run(t(*a2, **k2))
        executed_again = len(ran) > n1
        expect2 = t.func(*a2, **k2)
        ctx.case(key=("e2e", what), part="end-to-end", expect="cached" if same else "re-executed")
        if r2 != expect2:
            ctx.violation("C15-e2e-wrong-result-" + ("collision" if not same else "other"),
                          "second call served a result computed for different arguments: " + what,
                          case={"task": t.name, "first": [a1, k1], "second": [a2, k2]}, expected=repr(expect2), actual=repr(r2))
        elif same and executed_again:
            ctx.violation("C15-e2e-not-cached",
                          "second call denotes the same key but was executed again: " + what,
                          case={"task": t.name, "first": [a1, k1], "second": [a2, k2]}, expected="cache hit", actual="executed")
        elif not same and not executed_again:
            ctx.violation("C15-e2e-cached-collision", "second call differs in a non-config argument but was not executed: " + what,
                          case={"task": t.name, "first": [a1, k1], "second": [a2, k2]}, expected="executed", actual="cache hit")
    cse_within_one_execution(ctx, e2e_base, task, Scheduler)


def cse_within_one_execution(ctx, e2e_base, task, Scheduler):
    """two calls differing only in a wrapper-only keyword inside ONE execution (CSE keys on the eval hash)"""
    @task(name="e2e_both", namespace="verif_c15", version="1")
    def e2e_both():
        return [e2e_base(5, factor=1), e2e_base(5, factor=10), e2e_base(5, y=1, factor=10)]

    got = Scheduler().run(e2e_both())
    ctx.case(key=("e2e", "cse-wrapper-keyword"), part="end-to-end", expect="re-executed")
    if got != [5, 50, 60]:
        ctx.violation("C15-e2e-wrong-result-collision", "calls differing in a wrapper-only keyword inside one execution share one result (CSE)",
                      case={"task": "e2e_base (wraps_task, wrapper takes factor=)", "first": [[5], {"factor": 1}], "second": [[5], {"factor": 10}],
                            "program": "[base(5, factor=1), base(5, factor=10), base(5, y=1, factor=10)]"},
                      expected="[5, 50, 60]", actual=repr(got))


def replay(ctx, case):
    """re-run exactly the recorded case on the implementation (and the model)"""
    c = case.get("case")
    if not isinstance(c, dict) or "params" not in c:
        if isinstance(c, dict) and "first" in c:
            return end_to_end(ctx, ctx.rng)
        print("replay: no single input recorded (correspondence/proof break); running the whole check")
        return run(ctx)
    tup = lambda a: (a[0], bool(a[1]))
    params = [[p[0], p[1], None if p[2] is None else tup(p[2])] for p in c["params"]]
    cfg = c["config_args"]
    args = [tup(a) for a in c["args"]]
    kw = [(k, tup(a)) for k, a in c["kwargs"]]
    a2 = [tup(a) for a in c.get("mutated_args", c["args"])]
    k2 = [(k, tup(a)) for k, a in c.get("mutated_kwargs", c["kwargs"])]
    real = Real()
    with real.log:
        task = build_any(params, cfg, real.vals, "1", tuple(c["wrapper_keywords"]) if "wrapper_keywords" in c else None)
        for p in params:
            if p[2] is not None:
                real.label(p[2])
        e1, h1, _ = real.key(task, args, kw)
        e2, h2, _ = real.key(task, a2, k2)
        r1, r2 = real.render_key(task, e1, h1), real.render_key(task, e2, h2)
    m1, m2 = ctx.model("C15", [key_req("key", params, cfg, args, kw), key_req("key", params, cfg, a2, k2)])
    print("def            :", c["def"], " config_args =", cfg, (" | " + c["wraps_task"]) if "wraps_task" in c else "")
    print("call 1         :", args, kw, "\n  real eval_hash", e1, "\n  real pre-image ", r1, "\n  model pre-image", m1)
    print("call 2         :", a2, k2, "\n  real eval_hash", e2, "\n  real pre-image ", r2, "\n  model pre-image", m2)
    ctx.case(key=("replay", repr(c)[:200]), part="replay")
    if r1 != m1 or r2 != m2:
        ctx.mismatch("eval/args pre-image of the real key differs from the model", case=c, model=[m1, m2], impl=[r1, r2])
    kind = c.get("mutation", "")
    sig = case.get("signature", "")
    if sig.startswith("C15-key-collision") and e1 == e2:
        ctx.violation(sig, case.get("what", sig), case=c, expected="different eval_hash", actual="equal")
    if sig.startswith("C15-key-unstable") and (e1 != e2 or h1 != h2):
        ctx.violation(sig, case.get("what", sig), case=c, expected="equal eval_hash and args_hash", actual="different")
