"""C13 — promises settle once (first settlement wins), every registered callback of the matching branch runs exactly
once after settlement, chained promises adopt returned promises, Promise.all / wait_promises specification.
Model: lean/RedunModel/Model/Promise.lean (frame-stack small-step machine of redun/promise.py)."""
import itertools
import json

from core import Raw, sx  # noqa: F401

ID = "C13"
READY = True
LEAN_MODULES = ["RedunModel.Props.C13"]
LEAN_DRIVERS = ["C13"]
THEOREMS = [
    "RedunModel.C13.settle_once",
    "RedunModel.C13.first_wins",
    "RedunModel.C13.settle_pending",
    "RedunModel.C13.first_wins_op",
    "RedunModel.C13.then_registers",
    "RedunModel.C13.invoked_only_as_settled",
    "RedunModel.C13.not_before_settlement",
    "RedunModel.C13.other_branch_never",
    "RedunModel.C13.at_most_once",
    "RedunModel.C13.exactly_once",
    "RedunModel.C13.never_lost",
    "RedunModel.C13.settled_lists_empty",
    "RedunModel.C13.all_fulfills",
    "RedunModel.C13.all_rejects",
    "RedunModel.C13.all_pending",
    "RedunModel.C13.wait_fulfills",
    "RedunModel.C13.wait_pending",
    "RedunModel.Promise.Reach.execAll",
]
THEOREMS += [
    "RedunModel.C13.collector_created",
    "RedunModel.C13.collector_stable",
    "RedunModel.C13.order_refuted_witness",
    "RedunModel.C13.order_refuted_registered_during_notification",
    "RedunModel.C13.order_partial",
    "RedunModel.C13.lists_in_registration_order",
    "RedunModel.C13.during_recorded",
    "RedunModel.C13.not_waiting_when_idle",
    "RedunModel.C13.chained_plain_value",
    "RedunModel.C13.chained_raise",
    "RedunModel.C13.adopts_partial_registers",
    "RedunModel.C13.adopts_partial_effect",
]
TRUSTED = [
    "modelled, not verified: Python's synchronous call/return discipline (every call frame of do_resolve/_notify/then/"
    "wrapper/all/wait_promises that can be suspended by a nested call is a frame of the model's explicit stack; one "
    "model step = the code between two such calls), try/except Exception in wrap_callback.wrapper and Promise.__init__, "
    "list append/clear/rebinding, closures of Promise.all (results, num_done) and wait_promises (num_done)",
    "user callbacks are scripts: a finite list of then/do_resolve/do_reject/Promise()/Promise.all/wait_promises statements "
    "(on any promise, nested to any depth) followed by return <value> | return <argument> | return <promise> | raise; "
    "bound methods p.do_resolve/p.do_reject can be passed as callbacks. Other Python side effects of callbacks are outside the model",
    "ghost data of the model (registration numbers, origins of promises, the invoke/direct/adopt events) does not "
    "influence behaviour; the driver prints only what Python can observe (callback log, promise states, list lengths)",
]
ASSUMPTIONS = [
    "single thread (the class is documented as single-thread); no BaseException (KeyboardInterrupt) inside callbacks",
    "recursion depth is not exhausted: histories in which a promise's value chain is cyclic (a promise settled, as a "
    "plain value, with itself and then adopted) make the real code recurse until RecursionError; the model runs out of "
    "fuel there and the case is dropped (counted as truncated_at_divergence)",
    "actions only name promises that exist (the generator tracks the number of promises created so far)",
    "Promise.all / wait_promises specification theorems assume user code does not call do_resolve/do_reject on the promise "
    "they returned (hypothesis `Event.direct r.target not in s.log`); the oracle skips those cases the same way",
]
RULE = ("histories = sequences of top-level operations (Promise(), Promise(func), then/catch with scripted callbacks or bound "
        "methods or None, do_resolve/do_reject with ints/None/exceptions/lists/promises, Promise.all, wait_promises) run on "
        "the real redun.promise and on the Lean model; after every operation the user-callback log (function id, argument), "
        "every promise's state/value and the lengths of _resolvers/_rejectors are compared line by line. Streams: fixed corpus, "
        "all sequences up to length 3 (quick) / 4 (thorough) over a 13-operation alphabet on two promises, random histories up "
        "to 25 operations with scripts nested to depth 3. distinct = distinct operation sequences; non-trivial = at least one "
        "user callback ran or a collector was created")
LEVEL_TEXT = ("Lean theorems over ALL histories (any operation sequence, any nesting of re-entrant calls, any interleaving of "
              "machine steps; no bound): full strength — settle_once (a settled promise keeps branch and value forever), "
              "first_wins/first_wins_op/settle_pending (a second settlement is a no-op, the first takes effect), "
              "exactly_once + at_most_once + never_lost + not_before_settlement + other_branch_never + invoked_only_as_settled "
              "(every then() registration: the callback of the matching branch runs exactly once, only after settlement, with "
              "the promise's value; the other one never), all_fulfills/all_rejects/all_pending (Promise.all: results in input "
              "order iff all inputs fulfilled, else rejected with the first rejection its fail callback observed, else pending), "
              "wait_fulfills/wait_pending (collector_created/collector_stable tie the records to the calls). Partial — "
              "order_partial (a then() made while no notification loop of its promise has callbacks waiting runs after all "
              "earlier registrations of that promise; lists and loops are kept in registration order), adopts_partial_* + "
              "chained_plain_value/chained_raise (wrapper registers one more then() on a returned promise whose callback is "
              "q.do_resolve/q.do_reject; the end-to-end 'chained promise ends with the adopted outcome' is not proved, only "
              "checked by the tie). Refuted on the current code (proved counter-example, also replayed on the real code "
              "on every run): order_refuted_registered_during_notification — 'in registration order' fails when then() is called "
              "on a promise from inside one of its own callbacks. Tie to the code: differential run of model driver vs real "
              "class on generated histories + the property's oracle on the real class.")
LEVEL_NOTE = ("The model is hand-written; callbacks are scripts, so arbitrary Python in a callback is outside it. Termination is "
              "not claimed (a promise resolved with itself and adopted diverges in the code as in the model): exactly_once is "
              "stated for states in which nothing is running. RecursionError/KeyboardInterrupt and multi-threaded use cannot be "
              "exhibited by the model.")
TECHNIQUE = "Lean 4 invariant proofs over a small-step machine + differential op-sequence testing against redun.promise"

SIG_ORDER_KNOWN = "C13-order-then-during-notification"


# ---------------------------------------------------------------------------------------------- AST -> protocol
# val ::= None | int | ["e",k] | ["p",k] | ["l",[val..]]
# out ::= ["ret",val] | ["retarg"] | ["raise",k]
# fn  ::= None | ["fn",id,[act..],out] | ["bind",br,p]
# act ::= ["then",p,fn,fn] | ["settle",br,p,val] | ["settlearg",br,p] | ["new"] | ["newf",[act..],out]
#       | ["all",[p..]] | ["wait",[p..]]
def val_sx(v):
    if v is None:
        return "N"
    if isinstance(v, int):
        return "i%d" % v
    if v[0] == "e":
        return "(e i%d)" % v[1]
    if v[0] == "p":
        return "(p i%d)" % v[1]
    if v[0] == "l":
        return "(l" + "".join(" " + val_sx(x) for x in v[1]) + ")"
    raise ValueError(v)


def out_sx(o):
    if o[0] == "ret":
        return "(ret %s)" % val_sx(o[1])
    if o[0] == "retarg":
        return "retarg"
    if o[0] == "raise":
        return "(raise i%d)" % o[1]
    raise ValueError(o)


def fn_sx(f):
    if f is None:
        return "N"
    if f[0] == "fn":
        return "(fn i%d (%s) %s)" % (f[1], " ".join(act_sx(a) for a in f[2]), out_sx(f[3]))
    if f[0] == "bind":
        return "(bind %s i%d)" % (f[1], f[2])
    raise ValueError(f)


def act_sx(a):
    k = a[0]
    if k == "then":
        return "(then i%d %s %s)" % (a[1], fn_sx(a[2]), fn_sx(a[3]))
    if k == "settle":
        return "(settle %s i%d %s)" % (a[1], a[2], val_sx(a[3]))
    if k == "settlearg":
        return "(settlearg %s i%d)" % (a[1], a[2])
    if k == "new":
        return "(new)"
    if k == "newf":
        return "(newf (%s) %s)" % (" ".join(act_sx(x) for x in a[1]), out_sx(a[2]))
    if k in ("all", "wait"):
        return "(%s%s)" % (k, "".join(" i%d" % p for p in a[1]))
    raise ValueError(a)


# ---------------------------------------------------------------------------------------------- real code
class E(Exception):
    """the exceptions raised by scripts; identity = k"""

    def __init__(self, k):
        super().__init__(k)
        self.k = k


class Runaway(BaseException):
    """raised from the observation hooks when one operation does far more work than any history of the model:
    BaseException so that wrap_callback's `except Exception` does not swallow it"""


TICK_LIMIT = 4000


class World:
    """Interprets the op language against the real redun.promise and records what the property talks about."""

    def __init__(self, pm):
        self.pm = pm
        self.proms = []
        self.idx = {}
        self.calls = []          # user-function calls of the current op: rendered
        self.tick = 0
        self.regs = []           # then() calls made through the interpreter
        self.direct = set()      # promises some user code settles (or may settle) directly
        self.alls = []
        self.waits = []
        self.first = {}          # idx -> first observed settled status
        self.reject_tick = {}
        self.active = []         # stack of promise indexes whose user callback is executing
        self.notifying = {}      # idx -> number of non-trivial _notify loops of that promise on the Python stack
        self.invocations = {}    # (promise, branch) -> then() numbers in invocation order
        self.problems = []       # (signature, what, expected, actual)
        self.op_start = 0

    def step(self):
        self.tick += 1
        if self.tick - self.op_start > TICK_LIMIT:
            raise Runaway()

    # -- observation hooks (installed on the class by `hooked`)
    def register(self, obj):
        self.step()
        self.idx[id(obj)] = len(self.proms)
        self.proms.append(obj)

    def status(self, p):
        flags = (p.is_pending, p.is_fulfilled, p.is_rejected)
        if flags == (True, None, None):
            return ("P",)
        if flags == (False, True, False):
            return ("F", self.render(p._value))
        if flags == (False, False, True):
            return ("R", self.render(p._error))
        return ("?", repr(flags))

    def on_settle(self, obj, br, value, orig):
        i = self.idx.get(id(obj))
        before = self.status(obj)
        self.step()
        start = self.tick
        ret = orig(obj, value)
        self.tick += 1
        after = self.status(obj)
        want = (("F" if br == "res" else "R"), self.render(value)) if before == ("P",) else before
        if after != want:
            self.problems.append(("C13-settle-not-once" if before != ("P",) else "C13-settle-lost",
                                  "do_%s on promise %s in state %s" % ("resolve" if br == "res" else "reject", i, before),
                                  want, after))
        if before == ("P",) and br == "rej" and i is not None:
            self.reject_tick.setdefault(i, (start, self.tick))
        if ret is not value:
            self.problems.append(("C13-settle-return", "do_resolve/do_reject must return its argument", "arg", repr(ret)))
        return ret

    notify_hooked = False

    def on_notify(self, obj, orig):
        i = self.idx.get(id(obj))
        if obj.is_pending:
            return orig(obj)
        self.notifying[i] = self.notifying.get(i, 0) + 1
        try:
            return orig(obj)
        finally:
            self.notifying[i] -= 1

    # -- values
    def render(self, v, depth=0):
        if depth > 8:
            return "(x too-deep)"
        if v is None:
            return "N"
        if isinstance(v, bool):
            return "(x bool)"
        if isinstance(v, int):
            return "i%d" % v
        if isinstance(v, E):
            return "(e i%d)" % v.k
        if isinstance(v, self.pm.Promise):
            return "(p i%d)" % self.idx.get(id(v), -1)
        if isinstance(v, list):
            return "(l" + "".join(" " + self.render(x, depth + 1) for x in v) + ")"
        return "(x %s)" % type(v).__name__

    def mk_val(self, v):
        if v is None or isinstance(v, int):
            return v
        if v[0] == "e":
            return E(v[1])
        if v[0] == "p":
            return self.proms[v[1]]
        if v[0] == "l":
            return [self.mk_val(x) for x in v[1]]
        raise ValueError(v)

    # -- functions
    def mk_fn(self, f, reg, br):
        if f is None:
            return None
        if f[0] == "bind":
            self.direct.add(f[2])
            p = self.proms[f[2]]
            return p.do_resolve if f[1] == "res" else p.do_reject
        _, fid, acts, out = f

        def user_fn(arg):
            self.step()
            rec = {"arg": self.render(arg), "tick": self.tick, "owner_status": self.status(self.proms[reg["p"]])}
            reg["calls"][br].append(rec)
            reg_seq = self.invocations.setdefault((reg["p"], br), [])
            reg_seq.append(reg["rid"])
            self.calls.append("(c i%d %s)" % (fid, self.render(arg)))
            self.active.append(reg["p"])
            try:
                for a in acts:
                    self.do_act(a, arg)
                if out[0] == "raise":
                    e = E(out[1])
                    rec["raised"] = e
                    raise e
                r = arg if out[0] == "retarg" else self.mk_val(out[1])
                rec["ret"] = r
                return r
            finally:
                self.active.pop()

        return user_fn

    def do_act(self, a, arg):
        k = a[0]
        P = self.pm.Promise
        if k == "then":
            p = self.proms[a[1]]
            reg = {"rid": len(self.regs), "p": a[1], "r": a[2], "j": a[3], "q": None, "calls": {"res": [], "rej": []},
                   "during": (self.notifying.get(a[1], 0) > 0) if self.notify_hooked else (a[1] in self.active)}
            self.regs.append(reg)
            reg["q"] = len(self.proms)       # the chained promise is the next one created
            r = self.mk_fn(a[2], reg, "res")
            j = self.mk_fn(a[3], reg, "rej")
            if a[2] is None and a[3] is not None and (a[1] + len(self.regs)) % 2 == 0:
                q = p.catch(j)
            else:
                q = p.then(r, j)
            if self.idx.get(id(q)) != reg["q"]:
                self.problems.append(("C13-then-return", "then() must return the chained promise it created",
                                      reg["q"], self.idx.get(id(q))))
        elif k == "settle":
            self.direct.add(a[2])
            p = self.proms[a[2]]
            (p.do_resolve if a[1] == "res" else p.do_reject)(self.mk_val(a[3]))
        elif k == "settlearg":
            self.direct.add(a[2])
            p = self.proms[a[2]]
            (p.do_resolve if a[1] == "res" else p.do_reject)(arg)
        elif k == "new":
            P()
        elif k == "newf":
            me = len(self.proms)
            self.direct.add(me)
            acts, out = a[1], a[2]

            def func(resolve, reject):
                for x in acts:
                    self.do_act(x, None)
                if out[0] == "raise":
                    raise E(out[1])
            P(func)
        elif k == "all":
            t = len(self.proms)
            rejected_before = [i for i in a[1] if self.proms[i].is_rejected]
            self.tick += 1
            self.alls.append({"ps": list(a[1]), "t": t, "tick": self.tick, "rejected_before": rejected_before})
            q = P.all([self.proms[i] for i in a[1]])
            assert self.idx.get(id(q)) == t
        elif k == "wait":
            t = len(self.proms)
            self.waits.append({"ps": list(a[1]), "t": t})
            q = self.pm.wait_promises([self.proms[i] for i in a[1]])
            assert self.idx.get(id(q)) == t
        else:
            raise ValueError(a)

    def top(self, a):
        """one top-level operation -> reply line in the driver's format"""
        self.calls = []
        self.op_start = self.tick
        try:
            self.do_act(a, None)
        except Runaway:
            self.active.clear()
            self.notifying.clear()
            return "!Runaway"
        except Exception as e:  # noqa: BLE001
            return "!" + type(e).__name__
        st = []
        for p in self.proms:
            s = self.status(p)
            tail = " i%d i%d)" % (len(p._resolvers), len(p._rejectors))
            st.append("(" + " ".join(s) + tail)
        return "(log" + "".join(" " + c for c in self.calls) + ") (st" + "".join(" " + s for s in st) + ") ok"

    # -- the property oracle, applied after every top-level operation (everything is synchronous)
    def oracle(self):
        out = list(self.problems)
        self.problems = []
        stat = [self.status(p) for p in self.proms]
        for i, s in enumerate(stat):
            if s[0] == "?":
                out.append(("C13-flags-inconsistent", "is_pending/is_fulfilled/is_rejected of promise %d" % i, "one of three", s[1]))
            if s[0] in "FR":
                f = self.first.setdefault(i, s)
                if f != s:
                    out.append(("C13-settle-not-once", "promise %d changed its outcome" % i, f, s))
                try:
                    val = self.render(self.proms[i].value)
                except Exception as e:  # noqa: BLE001
                    val = "!" + type(e).__name__
                if val != s[1]:
                    out.append(("C13-value-property", ".value of settled promise %d" % i, s[1], val))
            elif i in self.first:
                out.append(("C13-settle-not-once", "promise %d became pending again" % i, self.first[i], s))
        for reg in self.regs:
            ps = stat[reg["p"]]
            for br, f in (("res", reg["r"]), ("rej", reg["j"])):
                if f is None or f[0] != "fn":
                    continue
                calls = reg["calls"][br]
                want = 1 if ps[0] == ("F" if br == "res" else "R") else 0
                if len(calls) != want:
                    sig = "C13-callback-lost" if len(calls) < want else ("C13-callback-twice" if want else "C13-callback-wrong-branch")
                    out.append((sig, "then() #%d on promise %d (%s): %s callback f%d ran %d times" %
                                (reg["rid"], reg["p"], ps[0], br, f[1], len(calls)), want, len(calls)))
                for c in calls:
                    if c["owner_status"][0] == "P":
                        out.append(("C13-callback-before-settlement", "callback f%d ran while promise %d pending" % (f[1], reg["p"]),
                                    "settled", "pending"))
                    elif c["arg"] != c["owner_status"][1]:
                        out.append(("C13-callback-wrong-argument", "callback f%d of promise %d" % (f[1], reg["p"]),
                                    c["owner_status"][1], c["arg"]))
            # chained promise
            q = reg["q"]
            if q in self.direct or q >= len(stat):
                continue
            if ps[0] == "P":
                want = ("P",)
            else:
                br = "res" if ps[0] == "F" else "rej"
                f = reg["r"] if br == "res" else reg["j"]
                if f is None:
                    want = ps
                elif f[0] == "bind":
                    want = self._adopt(self.proms[reg["p"]]._value if br == "res" else self.proms[reg["p"]]._error, stat)
                else:
                    calls = reg["calls"][br]
                    if len(calls) != 1:
                        continue
                    c = calls[0]
                    if "raised" in c:
                        want = ("R", self.render(c["raised"]))
                    elif "ret" in c:
                        want = self._adopt(c["ret"], stat)
                    else:
                        continue
            if stat[q] != want:
                out.append(("C13-chained-outcome", "chained promise %d of then() #%d on promise %d" % (q, reg["rid"], reg["p"]),
                            want, stat[q]))
        # order
        for (p, br), seq in self.invocations.items():
            for x, y in zip(seq, seq[1:]):
                if x > y:
                    known = self.regs[x]["during"]
                    out.append((SIG_ORDER_KNOWN if known else "C13-order",
                                "callbacks of promise %d (%s) ran in order %s; then() #%d was registered after #%d%s" %
                                (p, br, seq, x, y, " (during a notification of the same promise)" if known else ""),
                                sorted(seq), seq))
                    break
        for a in self.alls:
            if a["t"] in self.direct:
                continue
            subs = [stat[i] for i in a["ps"]]
            if all(s[0] == "F" for s in subs):
                want = ("F", "(l" + "".join(" " + s[1] for s in subs) + ")")
            elif any(s[0] == "R" for s in subs):
                if a["rejected_before"]:
                    want = ("R", stat[a["rejected_before"][0]][1])
                else:
                    # the rejection observed first is that of the input rejected first, or of an input rejected from
                    # inside a callback that ran during that rejection (before all()'s own callback got its turn)
                    rej = [i for i in a["ps"] if stat[i][0] == "R" and i in self.reject_tick]
                    lo, hi = min(self.reject_tick[i] for i in rej)
                    cands = {stat[i][1] for i in rej if lo <= self.reject_tick[i][0] <= hi}
                    want = stat[a["t"]] if (stat[a["t"]][0] == "R" and stat[a["t"]][1] in cands) else ("R", sorted(cands)[0])
            else:
                want = ("P",)
            if stat[a["t"]] != want:
                out.append(("C13-all-spec", "Promise.all(%s) -> promise %d, inputs %s" % (a["ps"], a["t"], subs), want, stat[a["t"]]))
        for w in self.waits:
            if w["t"] in self.direct:
                continue
            subs = [stat[i] for i in w["ps"]]
            want = ("F", "(l" + "".join(" (p i%d)" % i for i in w["ps"]) + ")") if all(s[0] != "P" for s in subs) else ("P",)
            if stat[w["t"]] != want:
                out.append(("C13-wait-spec", "wait_promises(%s) -> promise %d, inputs %s" % (w["ps"], w["t"], subs), want, stat[w["t"]]))
        return out

    def value_chain_reaches(self, p, k):
        """does following plain promise values from proms[k] reach proms[p]?"""
        seen = set()
        while k not in seen:
            if k == p:
                return True
            seen.add(k)
            if k >= len(self.proms):      # the promise under construction in Promise(func): still pending
                return False
            o = self.proms[k]
            v = None if o.is_pending else (o._value if o.is_fulfilled else o._error)
            if not isinstance(v, self.pm.Promise):
                return False
            k = self.idx[id(v)]
        return False

    def _adopt(self, r, stat):
        if isinstance(r, self.pm.Promise):
            return stat[self.idx[id(r)]]
        return ("F", self.render(r))


class hooked:
    """Temporarily wrap Promise.__init__/do_resolve/do_reject on the class for observation (restored on exit)."""

    def __init__(self, pm):
        self.pm = pm
        self.world = None

    def __enter__(self):
        P = self.pm.Promise
        self.saved = (P.__init__, P.do_resolve, P.do_reject)
        o_init, o_res, o_rej = self.saved
        self.saved_notify = P.__dict__.get("_notify")
        o_notify = self.saved_notify
        me = self

        def init(obj, func=None):
            me.world.register(obj)
            o_init(obj, func)

        def do_resolve(obj, result):
            return me.world.on_settle(obj, "res", result, o_res)

        def do_reject(obj, error):
            return me.world.on_settle(obj, "rej", error, o_rej)

        P.__init__, P.do_resolve, P.do_reject = init, do_resolve, do_reject
        if o_notify is not None:
            def _notify(obj):
                return me.world.on_notify(obj, o_notify)
            P._notify = _notify
        return self

    def __exit__(self, *exc):
        P = self.pm.Promise
        P.__init__, P.do_resolve, P.do_reject = self.saved
        if self.saved_notify is not None:
            P._notify = self.saved_notify

    def fresh(self):
        self.world = World(self.pm)
        self.world.notify_hooked = self.saved_notify is not None
        return self.world


# ---------------------------------------------------------------------------------------------- generator
class Gen:
    def __init__(self, rng, cyclic=None):
        self.rng = rng
        self.fid = 0
        self.cyclic = cyclic     # (p, k) -> would settling p with the plain value proms[k] close a value cycle?

    def val(self, n, depth=1):
        r = self.rng.random()
        if r < 0.15:
            return None
        if r < 0.6:
            return self.rng.randrange(0, 6)
        if r < 0.75:
            return ["e", self.rng.randrange(0, 4)]
        if r < 0.85 and n > 0:
            return ["p", self.rng.randrange(n)]
        if depth > 0:
            return ["l", [self.val(n, depth - 1) for _ in range(self.rng.randrange(0, 3))]]
        return 0

    def out(self, n):
        r = self.rng.random()
        if r < 0.4:
            return ["ret", self.val(n)]
        if r < 0.6:
            return ["retarg"]
        if r < 0.8:
            return ["raise", self.rng.randrange(0, 4)]
        return ["ret", ["p", self.pick(n)]]

    def pick(self, n):
        # favour few promises so that operations collide
        if self.rng.random() < 0.6:
            return self.rng.randrange(min(n, 3))
        return self.rng.randrange(n)

    def fn(self, n, depth):
        r = self.rng.random()
        if r < 0.25:
            return None
        if r < 0.35:
            return ["bind", self.rng.choice(["res", "rej"]), self.pick(n)]
        self.fid += 1
        fid = self.fid
        nacts = self.rng.choice([0, 0, 1, 1, 2, 3]) if depth > 0 else 0
        return ["fn", fid, [self.act(n, depth - 1, top=False) for _ in range(nacts)], self.out(n)]

    def act(self, n, depth, top):
        r = self.rng.random()
        if r < 0.42:
            return ["then", self.pick(n), self.fn(n, depth), self.fn(n, depth)]
        if r < 0.70:
            p = self.pick(n)
            v = self.val(n)
            if v is not None and not isinstance(v, int) and v[0] == "p" and self.cyclic and self.cyclic(p, v[1]):
                v = 0       # a promise settled with itself as a plain value: adoption never terminates (ASSUMPTIONS)
            return ["settle", self.rng.choice(["res", "res", "rej"]), p, v]
        if r < 0.75:
            return ["settlearg", self.rng.choice(["res", "rej"]), self.pick(n)]
        if r < 0.80:
            return ["new"]
        if r < 0.85 and top:
            k = self.rng.choice([0, 1, 2])
            return ["newf", [self.act(n + 1, depth - 1, top=False) for _ in range(k)] +
                    ([["settle", self.rng.choice(["res", "rej"]), n, self.val(n)]] if self.rng.random() < 0.6 else []),
                    self.rng.choice([["ret", None], ["raise", 1]])]
        k = self.rng.choice([0, 1, 2, 2, 3, 3, 4])
        return [self.rng.choice(["all", "wait"]), [self.pick(n) for _ in range(k)]]


def fnc(fid, acts=(), out=("ret", None)):
    return ["fn", fid, [list(a) for a in acts], list(out)]


CORPUS = [
    # F7: a callback registering a callback on the same promise during notification
    [["new"], ["then", 0, fnc(1, [["then", 0, fnc(3), None]]), None], ["then", 0, fnc(2), None], ["settle", "res", 0, 1]],
    [["new"], ["then", 0, None, fnc(1, [["then", 0, None, fnc(3)]])], ["then", 0, None, fnc(2)], ["settle", "rej", 0, ["e", 1]]],
    # settle twice, both kinds; late registration
    [["new"], ["settle", "res", 0, 1], ["settle", "res", 0, 2], ["settle", "rej", 0, ["e", 0]], ["then", 0, fnc(1), fnc(2)],
     ["then", 0, fnc(3, out=["retarg"]), None]],
    # re-entrant settlement of the same promise from inside its own callback
    [["new"], ["then", 0, fnc(1, [["settle", "rej", 0, ["e", 1]], ["settle", "res", 0, 9]]), fnc(2)], ["settle", "res", 0, 1]],
    # adoption: callback returns pending / fulfilled / rejected promise; promise as plain value
    [["new"], ["new"], ["then", 0, fnc(1, out=["ret", ["p", 1]]), None], ["then", 2, fnc(2, out=["retarg"]), fnc(3, out=["retarg"])],
     ["settle", "res", 0, 1], ["settle", "rej", 1, ["e", 2]]],
    [["new"], ["new"], ["settle", "res", 1, 5], ["then", 0, fnc(1, out=["ret", ["p", 1]]), None], ["settle", "res", 0, 1]],
    [["new"], ["new"], ["settle", "res", 0, ["p", 1]], ["then", 0, None, None], ["then", 0, ["bind", "res", 1], None],
     ["then", 0, fnc(1, out=["retarg"]), None], ["settle", "res", 1, 3]],
    # raising callbacks; catch
    [["new"], ["then", 0, fnc(1, out=["raise", 2]), None], ["then", 1, None, fnc(2, out=["ret", 4])], ["settle", "res", 0, 0]],
    [["new"], ["then", 0, None, fnc(1, out=["retarg"])], ["settle", "rej", 0, ["e", 3]]],
    # Promise.all: fulfilled in order, reject first observed, duplicates, empty, already settled inputs
    [["new"], ["new"], ["new"], ["all", [0, 1, 2]], ["settle", "res", 2, 3], ["settle", "res", 0, 1], ["settle", "res", 1, 2]],
    [["new"], ["new"], ["new"], ["all", [0, 1, 2]], ["settle", "rej", 2, ["e", 3]], ["settle", "rej", 0, ["e", 1]], ["settle", "res", 1, 2]],
    [["new"], ["new"], ["settle", "rej", 1, ["e", 1]], ["settle", "rej", 0, ["e", 0]], ["all", [1, 0]], ["all", [0, 1]], ["all", [0, 0]]],
    [["new"], ["all", []], ["wait", []], ["all", [0, 0]], ["settle", "res", 0, 2]],
    # wait_promises
    [["new"], ["new"], ["wait", [0, 1]], ["settle", "rej", 0, ["e", 0]], ["settle", "res", 1, 1]],
    [["new"], ["new"], ["wait", [0, 1, 0]], ["then", 2, fnc(1, out=["retarg"]), None], ["settle", "res", 1, 1], ["settle", "res", 0, 1]],
    # Promise(func)
    [["newf", [["settle", "res", 0, 1], ["settle", "rej", 0, ["e", 1]]], ["raise", 1]], ["newf", [], ["raise", 1]],
     ["newf", [["then", 2, fnc(1), None]], ["ret", None]], ["settle", "res", 2, 0]],
    # a callback of p0 settles p1 whose callback registers on p0 again
    [["new"], ["new"], ["then", 1, fnc(2, [["then", 0, fnc(4), None]]), None], ["then", 0, fnc(1, [["settle", "res", 1, 7]]), None],
     ["then", 0, fnc(3), None], ["settle", "res", 0, 1]],
    # all/wait called from inside a callback
    [["new"], ["new"], ["then", 0, fnc(1, [["all", [0, 1]], ["wait", [1, 0]]]), None], ["settle", "res", 0, 1], ["settle", "res", 1, 2]],
]


def small_alphabet():
    """ops over two pre-created promises for the exhaustive small-scope enumeration"""
    return [
        ["settle", "res", 0, 1], ["settle", "rej", 0, ["e", 0]], ["settle", "res", 1, 2], ["settle", "rej", 1, ["e", 1]],
        ["then", 0, fnc(1), fnc(2)],
        ["then", 0, fnc(3, [["then", 0, fnc(4), fnc(5)]]), None],
        ["then", 0, fnc(6, out=["ret", ["p", 1]]), None],
        ["then", 1, fnc(7, [["settle", "res", 0, 3]], out=["raise", 2]), fnc(8, [["settle", "rej", 0, ["e", 3]]], out=["retarg"])],
        ["then", 0, None, None],
        ["then", 1, ["bind", "res", 0], ["bind", "rej", 0]],
        ["all", [0, 1]], ["wait", [0, 1]],
        ["then", 2, fnc(9, out=["retarg"]), fnc(10, out=["retarg"])],
    ]


# ---------------------------------------------------------------------------------------------- run
def shape(a):
    return a[0] if a[0] != "settle" else a[1]


def refs(a):
    """largest promise index a top-level operation needs to exist already (-1: none)"""
    def fn_refs(f):
        if f is None:
            return -1
        if f[0] == "bind":
            return f[2]
        out_ref = val_refs(f[3][1]) if f[3][0] == "ret" else -1
        return max([out_ref] + [refs(x) for x in f[2]])

    def val_refs(v):
        if v is None or isinstance(v, int):
            return -1
        if v[0] == "p":
            return v[1]
        if v[0] == "l":
            return max([-1] + [val_refs(x) for x in v[1]])
        return -1
    k = a[0]
    if k == "then":
        return max(a[1], fn_refs(a[2]), fn_refs(a[3]))
    if k == "settle":
        return max(a[2], val_refs(a[3]))
    if k == "settlearg":
        return a[2]
    if k == "newf":
        return max([-1] + [refs(x) for x in a[1]]) - 1      # may name itself
    if k in ("all", "wait"):
        return max([-1] + list(a[1]))
    return -1


def run_cases(ctx, cases, tagname):
    """cases: list of (tag, ops). One model process for all; real code case by case."""
    import redun.promise as pm
    lines = []
    for _, ops in cases:
        lines.append("(reset)")
        lines.extend("(op " + act_sx(a) + ")" for a in ops)
    replies = ctx.model("C13", lines)
    pos = 0
    known_seen = 0
    with hooked(pm) as hk:
        for tag, ops in cases:
            if replies[pos] != "ok":
                ctx.mismatch("driver reset", case=None, model=replies[pos], impl="ok")
            pos += 1
            w = hk.fresh()
            bad = False
            ncalls = 0
            last = ""
            for k, a in enumerate(ops):
                if refs(a) >= len(w.proms):
                    ctx.count("truncated_at_dangling_reference", tag)
                    break
                mo = replies[pos + k]
                if mo.endswith("fuel-out"):
                    # cyclic value chain (a promise settled with itself as a plain value, then adopted): the real code
                    # recurses until RecursionError; outside the domain (ASSUMPTIONS)
                    ctx.count("truncated_at_divergence", tag)
                    break
                impl = last = w.top(a)
                ncalls += len(w.calls)
                casedoc = {"ops": ops[:k + 1], "text": [act_sx(x) for x in ops[:k + 1]]}
                if mo != impl and not bad:
                    bad = True
                    ctx.mismatch("promise states / callback log after operation %d differ from the model" % k,
                                 case=casedoc, model=mo, impl=impl)
                if impl.startswith("!"):
                    if impl == "!Runaway":
                        ctx.violation("C13-runaway", "one operation made more than %d callback/settlement calls (the model "
                                      "finishes it in a few steps): callbacks are run again and again" % TICK_LIMIT,
                                      case=casedoc, expected=mo, actual="does not finish", kind="history")
                    else:
                        ctx.violation("C13-exception-escapes", "an exception escaped a promise operation", case=casedoc,
                                      expected="no exception", actual=impl, kind="history")
                    break
                for sig, what, exp, act in w.oracle():
                    r = ctx.violation(sig, what, case=casedoc, expected=repr(exp), actual=repr(act), kind="history")
                    if r == "known":
                        known_seen += 1
                    else:
                        bad = True
                if bad:
                    break
            pos += len(ops)
            nontrivial = ncalls > 0 or any(a[0] in ("all", "wait") for a in ops)
            ctx.case(key=(json.dumps(ops) if nontrivial else None),
                     sample={"ops": [act_sx(a) for a in ops][:8], "final": last[:200]} if tag == "corpus" else None,
                     **{tagname: tag, "ops_per_case": min(len(ops) // 5 * 5, 30), "callbacks_run": min(ncalls, 12),
                        "max_promises": min(len(w.proms) // 5 * 5, 40)})
            for a in ops:
                ctx.count("top_level_op", shape(a))
    return known_seen


def gen_case(rng, cyclic=None):
    g = Gen(rng, cyclic)
    n0 = rng.choice([1, 2, 2, 3])
    ops = [["new"] for _ in range(n0)]
    return g, ops


def random_cases(ctx, count, maxlen):
    """Generation needs the number of promises alive, which only execution tells: generate against the real code."""
    import redun.promise as pm
    cases = []
    with hooked(pm) as hk:
        for _ in range(count):
            w = hk.fresh()
            g, ops = gen_case(ctx.rng, w.value_chain_reaches)
            for a in ops:
                w.top(a)
            for _ in range(ctx.rng.randrange(3, maxlen)):
                a = g.act(len(w.proms), ctx.rng.choice([0, 1, 1, 2, 2, 3]), top=True)
                ops.append(a)
                if w.top(a).startswith("!"):
                    break
            cases.append(("random", ops))
    return cases


def run(ctx):
    cases = [("corpus", c) for c in CORPUS]
    # the refuted-order witness must still behave as the model says (order f1, f3, f2)
    import redun.promise as pm
    with hooked(pm) as hk:
        w = hk.fresh()
        log = []
        for a in CORPUS[0]:
            w.top(a)
            log += w.calls
        ctx.expect_known(SIG_ORDER_KNOWN, reproduced=(log == ["(c i1 i1)", "(c i3 i1)", "(c i2 i1)"]),
                         case={"ops": CORPUS[0], "text": [act_sx(a) for a in CORPUS[0]], "callback_log": log},
                         what="a callback registered on a promise during that promise's notification runs before callbacks "
                              "registered earlier (order f1,f3,f2 instead of f1,f2,f3)")
    # exhaustive small scope
    alpha = small_alphabet()
    depth = 3 if ctx.tier == "quick" else 4
    for n in range(1, depth + 1):
        for seq in itertools.product(range(len(alpha)), repeat=n):
            cases.append(("exhaustive-%d" % n, [["new"], ["new"]] + [alpha[i] for i in seq]))
    cases += random_cases(ctx, ctx.n(1000, 20000), 26)
    run_cases(ctx, cases, "stream")


def search(ctx):
    cases = random_cases(ctx, ctx.n(3000, 20000), 40)
    run_cases(ctx, cases, "search")


def replay(ctx, case):
    c = case.get("case") or {}
    ops = c.get("ops") if isinstance(c, dict) else None
    if not ops and case.get("mismatches"):
        ops = (case["mismatches"][0].get("case") or {}).get("ops")
    if not ops:
        print("replay: no operation list in the file; running the normal check")
        return run(ctx)
    print("replay:", " ".join(act_sx(a) for a in ops))
    run_cases(ctx, [("replay", ops)], "stream")
