"""C09 — executions terminate with every job settled (no lost wake-up in the waiting list).
Model: lean/RedunModel/Model/SchedCore.lean."""
import json
import random

import sched_corr as sc
from props import C08 as base

ID = "C09"
READY = True
LEAN_MODULES = ["RedunModel.Props.C09"]
LEAN_DRIVERS = ["Sched"]
THEOREMS = [
    "RedunModel.C09.waiting_is_justified",
    "RedunModel.C09.no_stuck",
    "RedunModel.C09.waiting_once",
    "RedunModel.C09.feasible_of_check",
    "RedunModel.SchedCore.reachable_inv",
    "RedunModel.C09.no_deadlock",
    "RedunModel.C09.pending_job_has_activity",
    "RedunModel.C09.deadlock_without_rank_refuted",
    "RedunModel.C09.cycProg_not_ranked",
    "RedunModel.SchedCore.reachable_live",
    "RedunModel.SchedCore.idle_finished",
]
TRUSTED = base.TRUSTED
ASSUMPTIONS = base.ASSUMPTIONS + [
    "feasible programs only for the hang oracle: no job demands more of a resource than its configured limit (as in the statement)",
    "on a run that raises, jobs still in flight when the root fails are abandoned by design (run raises at the first root failure); "
    "'every job settled' is therefore checked on runs that return",
    "generated programs are ranked (hypothesis Ranked of no_deadlock): a task only calls tasks defined after it, so no job transitively "
    "calls a job with its own cache key; a recursive call with identical arguments deadlocks through CSE in the model "
    "(deadlock_without_rank_refuted) and is outside the property's domain"]
RULE = ("as C08 (same generator and controlled schedules) restricted to feasible limit configurations; the oracle is the controlled event "
        "loop itself: a state with no queued event and no in-flight job while the workflow promise is pending is a hang (the real loop "
        "would block in events_queue.get forever); on returning runs no job may be left in scheduler._jobs or in the waiting list. "
        "distinct = distinct (program, schedule); non-trivial = at least one job ever waited for limits")
LEVEL_TEXT = ("Lean 4 proof (all programs, all schedules) that a non-empty waiting list always has a justification (a holder or a queued "
              "execution) and hence that an idle scheduler has an empty waiting list (no lost wake-up), and that a waiting job is queued "
              "at most once; the liveness half is now proved too, FULL strength on the model: no_deadlock - for every real (non-dry) run of "
              "a program that is Feasible (no job demands more than its limit) and Ranked (a rank on cache keys strictly decreases from a "
              "job to the jobs it calls, i.e. no job transitively calls a job with its own cache key), in every schedule an idle state (no "
              "queued event, no job in flight) has the workflow promise settled; it rests on the lifecycle invariant reachable_live / "
              "pending_job_has_activity (every pending job is queued or waiting for limits, in flight, has a completion event queued, "
              "waits for a pending child, or is collapsed onto a pending non-collapsed job with the same key). The rank hypothesis is "
              "necessary: deadlock_without_rank_refuted is the closed counter-example f(x)->g(x)->f(x), which satisfies every other "
              "hypothesis and deadlocks through CSE (the inner call collapses onto its own ancestor). Dry runs are excluded by design: a "
              "dry run stops at the first miss with the promise pending.")
LEVEL_NOTE = ("mirrors /repo after fix 398aa2d (re-check of the waiting list on the CSE/cache exits) - the defect was found while attempting "
              "this proof; the former hanging schedule is a non-vacuity example in Props/C09.lean and a corpus case here")
TECHNIQUE = base.TECHNIQUE


def one_run(ctx, p, decisions=None, rng=None, items=None, tag="random", p_complete=0.3):
    waited = []

    def after(ctl):
        if ctl.scheduler._jobs_pending_limits:
            waited.append(1)
    st, payload, ctl, sched = sc.run_real(p, decisions=decisions, rng=rng, after_event=after, p_complete=p_complete)
    key = (json.dumps(p.to_json(), sort_keys=True), tuple(ctl.choice_log)) if waited else None
    ctx.case(key=key, sample={"program": p.to_json(), "choices": " ".join(ctl.choice_log), "status": st},
             status=st, jobs=len(p.specs), kind=tag, waited=bool(waited))
    case = {"program": p.to_json(), "choices": ctl.choice_log, "status": st}
    if st == "hang":
        ctx.violation("C09-hang-idle-with-pending-workflow", "scheduler idle (no event, no job in flight) while the workflow is pending",
                      case=case, expected="run returns or raises",
                      actual=dict(msg=str(payload), waiting=len(sched._jobs_pending_limits), limits_used=dict(sched.limits_used)),
                      kind="schedule")
    if st == "ok":
        if sched._jobs_pending_limits or sched._jobs:
            ctx.violation("C09-job-unsettled-after-return", "run returned but jobs are left unsettled", case=case, expected="none",
                          actual=dict(waiting=len(sched._jobs_pending_limits), jobs=len(sched._jobs)), kind="schedule")
    items.append((p, ctl, False, None, case))
    return ctl


def reuse_after_failure(ctx):
    """second execution on the same Scheduler after one that failed while limited jobs were in flight (oracle only)"""
    import ctl_sched
    for n_slow in (1, 2):
        for lim in (1, 2, None):          # None: the limit name is not configured at all (one unit by default)
            cfg = {"r0": lim} if lim else {}
            p1 = base.mk_prog([(False, [dict(callee=1)] * 0 + [dict(callee=1 + i) for i in range(n_slow)] + [dict(callee=n_slow + 1)], None)] +
                              [(False, [], ["r0"]) for _ in range(n_slow)] + [(True, [], None)], cfg)
            p2 = base.mk_prog([(False, [dict(callee=1), dict(callee=1, scope="NONE")], None), (False, [], ["r0"])], cfg)
            sched = ctl_sched.make_scheduler(None, limits=cfg)
            # complete the root, then the failing job first: the limited jobs are abandoned in flight
            st1, _, ctl1, _ = sc.run_real(p1, script=["p", "c0", "p"] + ["p"] * (n_slow + 1) + ["c%d" % (n_slow + 1)] + ["p"] * 6, sched=sched)
            held = dict(sched.limits_used)
            st2, pay2, ctl2, _ = sc.run_real(p2, rng=random.Random(n_slow * 7 + (lim or 0)), sched=sched)
            ctx.case(key=("reuse", n_slow, lim), sample={"first": st1, "held_after_first": held, "second": st2}, kind="scheduler-reuse",
                     status=st2)
            if st2 == "hang":
                ctx.violation("C09-hang-idle-with-pending-workflow:limits-held-by-previous-execution",
                              "an execution on a reused Scheduler waits forever for limits held by jobs of a previous, failed execution",
                              case={"first_program": p1.to_json(), "second_program": p2.to_json(), "held_after_first": held},
                              expected="run returns or raises", actual=str(pay2), kind="history")


def absorbed_failures(ctx):
    """limited jobs that fail under catch_all / catch while other jobs wait for the same limit (oracle only: the
    scheduler-core model has no catch forms).  The failure is absorbed, so the run must go on and finish."""
    import ctl_sched
    from redun import task
    from redun.scheduler import catch, catch_all
    ctl_sched.quiet()

    @task(namespace="c09a", version="1", limits=["r0"])
    def hold(i, fail):
        if fail:
            raise ValueError("boom %d" % i)
        return i

    @task(namespace="c09a", version="1")
    def recover(results):
        return [r if not isinstance(r, Exception) else "err" for r in results]

    @task(namespace="c09a", version="1")
    def recover1(error):
        return "err"

    def call(i, f):
        # "x": the job is rejected by the scheduler itself before it reaches an executor (unknown executor), after the limit check
        return hold.options(executor="nope")(i, False) if f == "x" else hold(i, f)

    @task(namespace="c09a", version="1")
    def main_all(pattern):
        return catch_all([call(i, f) for i, f in enumerate(pattern)], Exception, recover)

    @task(namespace="c09a", version="1")
    def main_each(pattern):
        return [catch(call(i, f), Exception, recover1) for i, f in enumerate(pattern)]

    rng = ctx.rng
    patterns = [[True, True, False, False], [True, False, True, False], [False, True, True, True], [True, True, True, True],
                [True, False, False], [False, False, True, True, False],
                ["x", False, False], [False, "x", False, "x"], ["x", "x", True, False], [True, "x", False]]
    for pattern in patterns:
        for lim in (1, 2):
            for main in (main_all, main_each):
                for k in range(ctx.n(2, 6)):
                    c = ctl_sched.Ctl(rng=random.Random(rng.random()))
                    sched = ctl_sched.make_scheduler(c, limits={"r0": lim})
                    st, payload = c.run(sched, main(pattern))
                    ctx.case(key=("absorbed", tuple(str(x) for x in pattern), lim, main.name, tuple(j.eval_args[0][0] if j.eval_args else -1 for j in c.completions)),
                             sample={"pattern": pattern, "limit": lim, "form": main.name, "status": st}, kind="absorbed-failure", status=st)
                    if st == "hang":
                        ctx.violation("C09-hang-idle-with-pending-workflow", "scheduler idle while the workflow is pending (failure absorbed by catch)",
                                      case={"form": main.name, "pattern": pattern, "limit": lim,
                                            "completion_order": [str(j.task.name) for j in c.completions]},
                                      expected="run returns", actual=dict(msg=str(payload), waiting=len(sched._jobs_pending_limits),
                                                                          limits_used=dict(sched.limits_used)), kind="schedule")


def run(ctx):
    rng = ctx.rng
    items = []
    reuse_after_failure(ctx)
    absorbed_failures(ctx)
    for defs, cfg in base.CORPUS:
        p = base.mk_prog(defs, cfg)
        if not sc.feasible(p):
            continue
        for _ in sc.enumerate_schedules(lambda d: one_run(ctx, p, decisions=d, items=items, tag="corpus-exhaustive"),
                                        ctx.n(30, 600)):
            pass
        base.flush(ctx, items)
    n = 0
    while n < ctx.n(34, 700):
        wide = n % 3 == 2
        p = sc.gen_wide(rng) if wide else sc.gen_program(rng, p_limits=0.8, allow_badexec=False)
        if not sc.feasible(p):
            continue
        n += 1
        for k in range(3 if wide else 2):
            one_run(ctx, p, rng=random.Random(rng.random()), items=items, tag="wide" if wide else "random",
                    p_complete=0.55 if wide else 0.3)
        if len(items) >= 50:
            base.flush(ctx, items)
    base.flush(ctx, items)


def replay(ctx, case):
    print("replay:", json.dumps(case.get("case"))[:400])
    run(ctx)
