"""C22 -- interrupted or retried recording never corrupts later runs.
Model: lean/RedunModel/Model/Db.lean (operations with their commit points); theorems: lean/RedunModel/Props/C22.lean;
control: harness/ctl_db.py (commit-point snapshots of the sqlite file, single-shot OperationalError injection)."""
import os
import shutil
import tempfile

import ctl_db

ID = "C22"
READY = True
LEAN_MODULES = ["RedunModel.Props.C22", "RedunModel.Props.C03", "RedunModel.Model.DbProto"]
LEAN_DRIVERS = ["C22"]
THEOREMS = [
    "RedunModel.Db.fk_commit",
    "RedunModel.C22.recordValue_prefix_consistent",
    "RedunModel.C22.setEvalCache_prefix_consistent",
    "RedunModel.C22.recordJobStart_prefix_consistent",
    "RedunModel.C22.recordJobEnd_prefix_consistent",
    "RedunModel.C22.recordCallNode_prefix_consistent",
    "RedunModel.C22.hist_cons",
    "RedunModel.C22.hist_cons_repaired",
    "RedunModel.C22.hist_cons_proposed",
    "RedunModel.C22.returned_op_leaves_nothing_pending",
    "RedunModel.C22.retry_rollback_keeps_returned_rows",
    "RedunModel.C22.pending_tags_lost_on_retry",
    "RedunModel.C22.only_outermost_retries",
    "RedunModel.C22.outermost_retries",
    "RedunModel.C22.merged_wrapper_later_nested_calls_retry",
    "RedunModel.C22.known_retry_loses_argument_rows",
    "RedunModel.C22.known_nested_retry_drops_pending",
    "RedunModel.Db.recordCallNode_cons_any",
    "RedunModel.Db.recordCallNode_shapes",
    "RedunModel.C22.refuted_task_gap",
    "RedunModel.C22.refuted_retry_loses_rows",
    "RedunModel.C22.refuted_retry_keyerror",
    "RedunModel.Db.recordCallNode_atomic",
    "RedunModel.C03.record_crash_safe",
    "RedunModel.C03.history_shallow_sound",
]
TRUSTED = [
    "modelled, not verified: sqlite/SQLAlchemy transaction atomicity (a commit is all-or-nothing), autoflush; the model "
    "has NO foreign-key enforcement: referential closure of every durable state is proved from the recording code",
    "`db_retry` after a transient error of a commit = rollback + re-run of the operation on the durable state; for the "
    "unrepaired code the nested retry (record_value inside record_call_node, whose rollback drops the caller's pending "
    "rows) is not modelled: there the oracle alone decides",
    "the scheduler's calling discipline (task recorded by record_job_start before set_eval_cache / record_call_node, "
    "result recorded before record_call_node, parents before children) enters `hist_cons` as the preconditions of the "
    "`Hist` constructors; the correspondence replays the real call sequence and compares `fkOk` with PRAGMA "
    "foreign_key_check on every durable state",
    "Variant flags of the model are probed on the working tree (see C03)",
]
ASSUMPTIONS = [
    "workloads: pure task programs with int arguments and nested-list results (values have Expression subvalues, no "
    "File/Handle values), every job records provenance, no tags/context; plus the `noprov` workload: shallow parent over "
    "prov=False children, every commit of its record_call_node as crash point / fault position, then EACH child edited "
    "on its own copy of the database; plus the `vstore` workload: backend with value_store_path and values above "
    "value_store_min_size, process death right AFTER each commit that made a Value row durable, then: recovery result, "
    "every Value row readable (backend.get_value), one more run executes no task; plus the `tags` workload: task option "
    "tags=, apply_tags value / job / execution tags and run(tags=...), one OperationalError at EVERY writing commit in "
    "turn, then all rows incl. Tag / TagEdit (up to uuids) compared with the undisturbed run; plus the `multiarg` "
    "workload: a call with one recorded and three new argument values (several nested record_value commits while the "
    "CallNode is pending), one OperationalError at every writing commit, the run must not raise",
    "process death = everything not committed is lost; one process at a time per database",
    "transient failure = ONE OperationalError raised instead of a writing commit (quick tier) or before any statement "
    "(thorough tier), retried with db_retries_backoff = 0",
    "'returns exactly what a run on an empty backend would' is checked against direct evaluation of the generated "
    "program (and against a real run on an empty backend for the corpus program)",
    "'neither duplicate nor lose records' compares the content-addressed tables (values, tasks, subvalues, call nodes, "
    "edges, arguments, argument results, subtree tasks, evaluations) and the job/execution shape with those of an "
    "undisturbed run of the same program on an empty backend",
]
RULE = ("a case = (program, crash point) or (program, fault position): the program runs on an empty backend with a snapshot "
        "of the sqlite file after every writing commit; for every chosen snapshot: PRAGMA foreign_key_check, a recovery run "
        "of the same program, then of an edited program, each compared with direct evaluation; for every chosen fault "
        "position: the run must succeed, the tables must equal those of the undisturbed run, then an edited run. Corpus "
        "program: ALL commits / ALL positions; generated programs: sampled positions (quick) or all (thorough). Every "
        "backend operation of every run is replayed on the Lean model. distinct = (program shape, kind, position); all "
        "non-trivial")
LEVEL_TEXT = ("Lean 4 proof. Full strength for the first clause, for every variant with the one-commit record_value (fix d), "
              "two-commit record_call_node included: hist_cons (every durable state of every history of recording "
              "operations with process deaths at any commit is referentially closed and has a Task row for every Task "
              "value) built from fk_commit and the five *_prefix_consistent theorems; recordCallNode_shapes (which call "
              "graph a crash can leave). 'Later runs return what a fresh run returns' is C03.history_shallow_sound on the "
              "same histories plus the result oracle: partial. 'Retried operations neither duplicate nor lose records' is "
              "FALSE for the two-commit record_call_node: known_retry_loses_argument_rows (known finding); "
              "known_nested_retry_drops_pending shows why a nested db_retry had to go (fixed: only the outermost call "
              "retries). For the unrepaired code: refuted_task_gap, "
              "refuted_retry_loses_rows, refuted_retry_keyerror.")
LEVEL_NOTE = ("partial where the truth lives in the runtime: real process death is simulated by discarding the session at a "
              "commit boundary (no torn pages, no half-written journal), OperationalError is injected, not provoked. "
              "Retry idempotence ('neither duplicate nor lose') is proved only as atomicity (recordCallNode_atomic, "
              "recordValue one commit) + closed examples; the row-for-row equality with the undisturbed run is checked by "
              "the oracle. Not modelled: tags, File/Handle values, value store, concurrent writers.")
TECHNIQUE = "Lean 4 invariant proof over all commit prefixes of an executable backend model + commit-point/fault-injection correspondence"

CONTENT_TABLES = ["values", "tasks", "files", "subvalues", "edges", "args", "argres", "subtree", "evals"]

SIG = {
    "gap": ("C22-task-value-without-task-row",
            "record_value commits the Value row of a Task before its Task row and returns early once the Value exists: a "
            "process death (or a retried failure) in between makes every later run fail with IntegrityError / commit "
            "rows with dangling task_hash (record_job_start switches foreign keys off)"),
    "stale": ("C22-stale-result-after-interruption",
              "after a process death / retried failure inside record_call_node the CallSubtreeTask rows are missing "
              "for good and an edited child is served from the shallow cache (C03's defect seen from C22)"),
    "keyerror": ("C22-retry-keyerror-root-job",
                 "record_job_start pops the pending Execution before its commit: a transient OperationalError at that "
                 "commit makes the retry raise KeyError"),
    "integrity": ("C22-retry-integrityerror",
                  "a transient OperationalError inside a nested record_value makes its db_retry roll back the rows the "
                  "enclosing record_call_node had pending: the run dies with IntegrityError"),
    "lost": ("C22-retry-loses-records",
             "after a retried transient failure the database lacks rows of the undisturbed run (Argument / "
             "CallSubtreeTask / Task rows: the retried operation returns early on the partially committed state)"),
    "fk": ("C22-dangling-foreign-key",
           "PRAGMA foreign_key_check reports rows with unresolved references"),
}


def corpus_program(small=False):
    # shallow parent, a sibling whose argument comes out of another task's result (upstream), a duplicate call (CSE)
    if small:
        return ctl_db.Program(2, [[(1, 0), (1, 1, 1)], []], [True, False], [(0, 1)], ns="gc22")
    return ctl_db.Program(3, [[(1, 0), (2, 1, 1)], [(2, 0)], []], [True, False, True], [(0, 1)], ns="gc22")


def tag_shape(d, I):
    """Tag rows up to uuids: (entity type, key, value, current, entity if it is content-addressed, #parent edits)"""
    nparents = {}
    for p, c in d["tagedits"]:
        nparents[c] = nparents.get(c, 0) + 1
    out = []
    for t, et, en, k, v, cur in d["tags"]:
        etn = str(I.names[et])
        ent = en if any(x in etn for x in ("Value", "Task", "CallNode")) else None
        out.append((etn, str(I.names[k]), str(I.names[v]), cur, ent, nparents.get(t, 0)))
    return sorted(out, key=repr)


def shape(d, I=None):
    """content-addressed part of a dump + job/execution shape (+ the Tag / TagEdit rows when `I` is given)"""
    out = {t: d[t] for t in CONTENT_TABLES}
    if I is not None:
        out["tags"] = tag_shape(d, I)
        out["ntagedits"] = len(d["tagedits"])
    out["nodes"] = sorted(n[:4] for n in d["nodes"])
    out["jobs"] = sorted((j[1], j[4], j[5], j[6]) for j in d["jobs"])
    out["nexecs"] = len(d["execs"])
    return out


class Workload:
    """one program: undisturbed run with a file copy of every durable state"""

    def __init__(self, ctx, env, flags, prog, label):
        self.ctx, self.env, self.flags, self.prog, self.label = ctx, env, flags, prog, label
        self.base_versions = list(prog.versions)
        c = ctl_db.Case(env, prog, flags, label + ":clean")
        c.snap_dir = tempfile.mkdtemp(prefix="snaps-", dir=env.base)
        res, _, n = c.run(0, fault_k=10 ** 9, fault_mode="stmt")     # never fires: counts the statements
        c.steps[-1] = ("run", 0, None, None, c.steps[-1][4], None)
        self.nstmts = c.last_fault_n or 150
        self.clean = c
        self.ncommits = n
        self.snaps = list(c.last_snaps)
        self.I = c.I
        self.clean_dump = ctl_db.dump_db(c.repos[0], c.I)
        if res != prog.expected_main():
            ctx.violation("C22-clean-run-wrong", "undisturbed run on an empty backend differs from direct evaluation",
                          c.describe(), repr(prog.expected_main())[:200], repr(res)[:200])

    def reset(self):
        self.prog.versions = list(self.base_versions)

    def edit_targets(self):
        # the deepest task: its edit must propagate through every cached ancestor; for the prov=False workload every
        # child in turn (each on its own copy of the database)
        if isinstance(self.prog, ctl_db.NoProvProgram):
            return list(range(1, self.prog.n))
        return [self.prog.n - 1]

    def later_steps(self, c):
        """('same', repo) then one ('edited', repo) per edit target; several targets -> each on a branch of repo 0"""
        yield "same", 0
        targets = self.edit_targets()
        for t in targets:
            self.reset()
            self.prog.edit(t)
            if len(targets) == 1:
                yield "edited", 0
            else:
                c.branch(0, t)
                yield f"edited-{t}", t


def task_gap(path):
    """Task-typed Value rows without Task row (the state `record_value`'s early exit cannot repair)"""
    import sqlite3
    con = sqlite3.connect(path)
    try:
        return [r[0] for r in con.execute(
            "select value_hash from value where type = 'redun.Task' and value_hash not in (select hash from task)")]
    finally:
        con.close()


def crash_case(ctx, w: Workload, k: int, cases):
    """process death right after the k-th writing commit (= before the (k+1)-th)"""
    w.reset()
    prog = w.prog
    snap = w.snaps[k - 1]
    key = (repr(prog.describe()), "crash", k)
    fkv = ctl_db.fk_violations(snap)
    gap = task_gap(snap)
    label = dict(workload=w.label, program=prog.describe(), crash_after_commit=k)
    if fkv:
        ctx.violation(SIG["fk"][0], SIG["fk"][1], dict(label, where="crash state"), expected="[]", actual=repr(fkv[:4]),
                      kind="crash_point")
    c = ctl_db.Case(w.env, prog, w.flags, f"{w.label}:crash@{k}")
    c.I = w.I
    c.disturb.append("crash")
    path = w.env.new_db()
    shutil.copyfile(snap, path)
    c.events.append(dict(req="(new i0)", kind="ack", name="new"))
    c.adopt(0, path)
    # recovery with the same program, then with an edited one
    outcomes = []
    for step, r in w.later_steps(c):
        res, _, _ = c.run(r)
        exp = prog.expected_main()
        outcomes.append(res if isinstance(res, str) else ("ok" if res == exp else "WRONG"))
        if isinstance(res, str):
            sig = SIG["gap"] if (gap or res in ("!IntegrityError", "!AttributeError")) else \
                ("C22-recovery-run-raises", "recovery run raised " + res)
            ctx.violation(sig[0], sig[1], dict(label, step=step, task_values_without_task_row=len(gap)),
                          expected=repr(exp)[:200], actual=res, kind="crash_point")
            break
        if res != exp:
            ctx.violation(SIG["stale"][0], SIG["stale"][1], dict(label, step=step), expected=repr(exp)[:300],
                          actual=repr(res)[:300], kind="crash_point")
        fk2 = ctl_db.fk_violations(c.repos[r])
        if fk2:
            ctx.violation(SIG["fk"][0], SIG["fk"][1], dict(label, where="after recovery run " + step), expected="[]",
                          actual=repr(fk2[:4]), kind="crash_point")
    ctx.case(key=key, sample=dict(label, outcomes=outcomes), kind="crash", outcome="/".join(outcomes))
    cases.append(c)


def fault_case(ctx, w: Workload, k: int, mode, cases, later=True):
    w.reset()
    prog = w.prog
    key = (repr(prog.describe()), "fault-" + mode, k)
    label = dict(workload=w.label, program=prog.describe(), fault_position=k, mode=mode)
    c = ctl_db.Case(w.env, prog, w.flags, f"{w.label}:fault-{mode}@{k}")
    c.I = w.I
    c.disturb.append("fault")
    res, fired, _ = c.run(0, fault_k=k, fault_mode=mode)
    exp = prog.expected_main()
    if fired is None:
        return False
    outcomes = []
    if isinstance(res, str):
        outcomes.append(res)
        gap_now = task_gap(c.repos[0])
        sig = SIG["keyerror"] if res == "!KeyError" else SIG["gap"] if gap_now else \
            ("C22-transient-error-not-absorbed",
             "the run raised " + res + " after ONE transient OperationalError although the fault-free run returns: the "
             "retry did not absorb the error (e.g. a nested db_retry rolled back the rows its caller had pending)")
        ctx.violation(sig[0], sig[1], dict(label, fired=fired), expected=repr(exp)[:200], actual=res, kind="fault")
    else:
        outcomes.append("ok" if res == exp else "WRONG")
        if res != exp:
            ctx.violation(SIG["stale"][0], SIG["stale"][1], dict(label, fired=fired), expected=repr(exp)[:300],
                          actual=repr(res)[:300], kind="fault")
        d = ctl_db.dump_db(c.repos[0], c.I)
        if shape(d, c.I) != shape(w.clean_dump, c.I):
            a, b = shape(d, c.I), shape(w.clean_dump, c.I)
            diff = {t: (len(a[t]) if hasattr(a[t], "__len__") else a[t], len(b[t]) if hasattr(b[t], "__len__") else b[t])
                    for t in a if a[t] != b[t]}
            tag_tables = {t for t in diff if t in ("tags", "ntagedits")}
            if tag_tables:
                missing = [r for r in b["tags"] if r not in a["tags"]]
                ctx.violation("C22-retry-loses-tags",
                              "after one retried transient OperationalError the Tag / TagEdit rows differ from those of the "
                              "undisturbed run (tags recorded by an operation that had already returned are lost or "
                              "duplicated)", dict(label, fired=fired), expected="Tag rows of the undisturbed run",
                              actual=f"missing here: {missing[:4]}; (rows here, rows undisturbed): "
                                     f"{ {t: diff[t] for t in tag_tables} }", kind="fault")
            if set(diff) - tag_tables:
                ctx.violation(SIG["lost"][0], SIG["lost"][1], dict(label, fired=fired),
                              expected="rows of the undisturbed run",
                              actual=f"(rows here, rows undisturbed) per differing table: "
                                     f"{ {t: diff[t] for t in diff if t not in tag_tables} }", kind="fault")
            outcomes.append("rows-differ")
    fkv = ctl_db.fk_violations(c.repos[0])
    if fkv:
        sig = SIG["gap"] if task_gap(c.repos[0]) else SIG["fk"]
        ctx.violation(sig[0], sig[1], dict(label, where="after the retried run", foreign_key_check=repr(fkv[:4])),
                      expected="[]", actual=repr(fkv[:4]), kind="fault")
    # later runs
    for step, r in (w.later_steps(c) if later else ()):
        res2, _, _ = c.run(r)
        exp2 = prog.expected_main()
        outcomes.append(res2 if isinstance(res2, str) else ("ok" if res2 == exp2 else "WRONG"))
        if isinstance(res2, str):
            sig = SIG["gap"] if (res2 in ("!IntegrityError", "!AttributeError") or task_gap(c.repos[0])) else \
                ("C22-later-run-raises", "later run raised " + res2)
            ctx.violation(sig[0], sig[1], dict(label, step=step, fired=fired), expected=repr(exp2)[:200], actual=res2,
                          kind="fault")
            break
        if res2 != exp2:
            ctx.violation(SIG["stale"][0], SIG["stale"][1], dict(label, step=step, fired=fired), expected=repr(exp2)[:300],
                          actual=repr(res2)[:300], kind="fault")
    ctx.case(key=key, sample=dict(label, fired=fired, outcomes=outcomes), kind="fault-" + mode, outcome="/".join(outcomes))
    cases.append(c)
    return True


def unreadable_values(path, cfg):
    """Value rows whose value cannot be read back (`backend.get_value` says not cached)"""
    import sqlite3
    con = sqlite3.connect(path)
    try:
        hashes = [r[0] for r in con.execute("select value_hash from value")]
    finally:
        con.close()
    s = ctl_db.new_scheduler(path, cfg)
    bad = []
    try:
        for h in hashes:
            try:
                _, ok = s.backend.get_value(h)
            except Exception as e:  # noqa: BLE001
                ok = False
            if not ok:
                bad.append(h)
    finally:
        ctl_db.close_scheduler(s)
    return bad


def value_store_cases(ctx, env, flags, cases):
    """backend with a value store and values above value_store_min_size; process death right AFTER every writing
    commit (between a commit and the next statement); after recovery every recorded Value must be readable and one
    more run must execute nothing"""
    def cfg():
        d = tempfile.mkdtemp(prefix="vstore-", dir=env.base)
        return {"value_store_path": d, "value_store_min_size": "300"}
    probe = ctl_db.Case(env, ctl_db.BigProgram(), flags, "vstore:clean")
    probe.backend_cfg = cfg()
    res, _, n = probe.run(0)
    cases.append(probe)
    if res != probe.prog.expected_main():
        ctx.violation("C22-clean-run-wrong", "undisturbed run with a value store differs from direct evaluation",
                      probe.describe(), repr(probe.prog.expected_main())[:100], repr(res)[:100])
    # the commits that made a new Value row durable (the only ones after which value-store data can be missing)
    dumps = [d for ev in probe.events for d in (ev.get("dumps") or [])]
    ks = [i + 1 for i, d in enumerate(dumps) if len(d["values"]) > (len(dumps[i - 1]["values"]) if i else 0)]
    if ctx.tier == "thorough":
        ks = list(range(1, n + 1))
    for k in ks:
        prog = ctl_db.BigProgram()
        c = ctl_db.Case(env, prog, flags, f"vstore:crash-after@{k}")
        c.backend_cfg = cfg()
        c.disturb.append("crash")
        label = dict(workload="vstore", program=prog.describe(), crash_right_after_commit=k)
        res, _, _ = c.run(0, crash_after=k)
        outcomes = []
        r1, _, _ = c.run(0)                      # recovery
        exp = prog.expected_main()
        outcomes.append(r1 if isinstance(r1, str) else ("ok" if r1 == exp else "WRONG"))
        if r1 != exp:
            ctx.violation(SIG["stale"][0] if not isinstance(r1, str) else "C22-recovery-run-raises",
                          "recovery run after a process death differs from a fresh run", label,
                          expected=repr(exp)[:200], actual=repr(r1)[:200], kind="crash_point")
        bad = unreadable_values(c.repos[0], c.backend_cfg)
        if bad:
            ctx.violation("C22-value-row-without-value-store-object",
                          "after recovery a recorded Value cannot be read back: its row exists (so record_value returns "
                          "early) but the value store has no object for it", dict(label, unreadable=len(bad)),
                          expected="every Value row readable", actual=f"{len(bad)} unreadable value(s)", kind="crash_point")
            outcomes.append("unreadable")
        del prog.runs[:]
        r2, _, _ = c.run(0)                      # everything is cached now: nothing may execute
        if prog.runs:
            ctx.violation("C22-reexecution-after-recovery",
                          "a run after the recovery run executes tasks again although nothing changed (a cached result is "
                          "lost for good)", dict(label, executed=list(prog.runs)), expected="no task executed",
                          actual=repr(prog.runs), kind="crash_point")
            outcomes.append("re-executes")
        fkv = ctl_db.fk_violations(c.repos[0])
        if fkv:
            ctx.violation(SIG["fk"][0], SIG["fk"][1], dict(label, where="after recovery"), expected="[]", actual=repr(fkv[:4]))
        ctx.case(key=("vstore", k), sample=dict(label, outcomes=outcomes), kind="crash-after-commit", outcome="/".join(outcomes))
        cases.append(c)


def run(ctx):
    ctl_db.quiet()
    base = tempfile.mkdtemp(prefix="gC-c22-")
    try:
        env = ctl_db.Env(ctx, base)
        flags, _ = ctl_db.probe_flags(ctx, env)
        ctx.note("variant flags probed on the working tree: " + ", ".join(
            f"{k}={'repaired' if v else 'current'}" for k, v in flags.items()))
        for f in ctl_db.FLAG_NAMES:
            ctx.count("flag_" + f, "repaired" if flags[f] else "current")
        rng = ctx.rng
        cases = []
        thorough = ctx.tier == "thorough"
        workloads = []
        w0 = ctl_db.guarded(ctx, "corpus", lambda: Workload(ctx, env, flags, corpus_program(small=not thorough), "corpus"))
        if w0 is not None:
            workloads.append(w0)
        for i in range(ctx.n(0, 4)):
            w = ctl_db.guarded(ctx, f"gen{i}", lambda i=i: Workload(ctx, env, flags, ctl_db.gen_program(rng, ns="gc22g"), f"gen{i}"))
            if w is not None:
                workloads.append(w)
        wnp = ctl_db.guarded(ctx, "noprov", lambda: Workload(ctx, env, flags, ctl_db.NoProvProgram(ns="gc22np"), "noprov"))
        if wnp is not None:
            # every commit of the shallow parent's record_call_node (which records its prov=False children's Task
            # values itself, one commit each, between the CallNode and its subtree rows) and the one after it
            cases.append(wnp.clean)
            rng_np = ctl_db.commit_range_of(wnp.clean, "record_call_node", 0) or (1, 0)
            for k in range(rng_np[0], min(rng_np[1] + 1, wnp.ncommits) + 1):
                ctl_db.guarded(ctx, f"noprov:crash@{k}", lambda k=k: crash_case(ctx, wnp, k, cases))
            for k in range(rng_np[0], rng_np[1] + 1):
                ctl_db.guarded(ctx, f"noprov:fault@{k}", lambda k=k: fault_case(ctx, wnp, k, "commit", cases))
        ctl_db.guarded(ctx, "vstore", lambda: value_store_cases(ctx, env, flags, cases))
        # a call with one recorded and several NEW argument values: several nested record_value calls commit while
        # the CallNode is pending; one transient error at EVERY writing commit in turn must be absorbed
        wma = ctl_db.guarded(ctx, "multiarg", lambda: Workload(ctx, env, flags, ctl_db.MultiArgProgram(ns="gc22ma"), "multiarg"))
        if wma is not None:
            cases.append(wma.clean)
            for k in range(1, wma.ncommits + 1):
                ctl_db.guarded(ctx, f"multiarg:fault@{k}", lambda k=k: fault_case(ctx, wma, k, "commit", cases, later=False))
        # jobs that carry tags (task option tags=, apply_tags value / job / execution tags, run(tags=...)): one
        # transient error at EVERY writing commit in turn, then ALL rows incl. Tag / TagEdit against the baseline
        wtag = ctl_db.guarded(ctx, "tags", lambda: Workload(ctx, env, flags, ctl_db.TagProgram(ns="gc22tag"), "tags"))
        if wtag is not None:
            cases.append(wtag.clean)
            for k in range(1, wtag.ncommits + 1):
                ctl_db.guarded(ctx, f"tags:fault@{k}", lambda k=k: fault_case(ctx, wtag, k, "commit", cases, later=False))
        for wi, w in enumerate(workloads):
            cases.append(w.clean)
            full = (wi == 0) or thorough
            ks = list(range(1, w.ncommits + 1))
            crash_ks = ks if full else sorted(rng.sample(ks, min(len(ks), 3)))
            fault_ks = ks if full else sorted(rng.sample(ks, min(len(ks), 3)))
            for k in crash_ks:
                ctl_db.guarded(ctx, f"{w.label}:crash@{k}", lambda k=k: crash_case(ctx, w, k, cases))
            for k in fault_ks:
                ctl_db.guarded(ctx, f"{w.label}:fault@{k}", lambda k=k: fault_case(ctx, w, k, "commit", cases, later=thorough or k % 2 == 0))
            # statement-level faults: every statement in the thorough tier, a sample otherwise
            nst = 0
            # (the second half of a run is the resolve phase: record_call_node with its nested record_value calls)
            lo = max(1, w.nstmts // 2)
            want = (30 if thorough else 4) if wi == 0 else (10 if thorough else 1)
            stmt_ks = (list(range(1, lo, 3)) + list(range(lo, w.nstmts + 1))) if (thorough and wi == 0) else \
                sorted(rng.sample(range(lo, w.nstmts + 1), min(want, w.nstmts + 1 - lo)))
            for k in stmt_ks:
                if not ctl_db.guarded(ctx, f"{w.label}:fault-stmt@{k}", lambda k=k: fault_case(ctx, w, k, "stmt", cases), True):
                    break
                nst += 1
        # ---- model replay
        all_lines, spans = [], []
        for c in cases:
            lines, evs = c.lines()
            # referential closure of the final state, model vs sqlite
            for r, path in c.repos.items():
                lines.append(f"(fk i{r})")
                evs.append(dict(req=lines[-1], kind="fk", name="fk", path=path))
            spans.append((c, evs, len(all_lines), len(all_lines) + len(lines)))
            all_lines.extend(lines)
        replies = ctx.model("C22", all_lines)
        for c, evs, a, b in spans:
            reps = replies[a:b]
            nested = (not flags["atomicCallNode"]) and any(
                ev.get("fault_j") is not None and ev.get("name") == "record_call_node" for ev in evs)
            stmt = ":fault-stmt" in c.label
            if nested or (stmt and not (flags["atomicCallNode"] and flags["atomicValue"])):
                ctx.count("model_comparison", "skipped-nested-retry-of-unrepaired-code")
                continue
            if stmt and any(ev.get("err") for ev in evs):
                ctx.count("model_comparison", "skipped-run-failed")
                continue
            body = [(e, r) for e, r in zip(evs, reps) if e["kind"] != "fk"]
            bad = ctl_db.compare_case(ctx, c, [e for e, _ in body], [r for _, r in body])
            if bad == 0 and not any(ev.get("err") for ev in evs):
                for e, r in zip(evs, reps):
                    if e["kind"] == "fk":
                        real_ok = not ctl_db.fk_violations(e["path"]) if os.path.exists(e["path"]) else None
                        model_ok = r.startswith("(T")
                        if real_ok is not None and real_ok != model_ok:
                            ctx.mismatch("referential closure: model fkOk vs PRAGMA foreign_key_check", c.describe(),
                                         r, real_ok)
            ctx.count("model_comparison", "done")
    finally:
        shutil.rmtree(base, ignore_errors=True)


def replay(ctx, case):
    print("replay case:", case.get("case"))
    run(ctx)
