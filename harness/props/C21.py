"""C21 — upstream dataflow of arguments is recorded.
Model: lean/RedunModel/Model/Upstreams.lean, theorems: lean/RedunModel/Props/C21.lean, driver: lean/Driver/C21.lean.
Tie: generated dataflow programs are run for real (in-memory backend, deterministic scheduler); all Argument /
ArgumentResult rows are compared with the model and, independently, with the specification `producers`."""
from core import sx

ID = "C21"
READY = True
LEAN_MODULES = ["RedunModel.Props.C21"]
LEAN_DRIVERS = ["C21"]
THEOREMS = [
    "RedunModel.C21.findUps_reach",
    "RedunModel.C21.upstreams",
    "RedunModel.C21.rows_upstreams",
    "RedunModel.C21.defaults_as_kwargs",
    "RedunModel.C21.unevaluated_no_upstream",
    "RedunModel.C21.legacy_refuted_duplicate_scheduler_expr",
    "RedunModel.C21.legacy_refuted_default_expr",
    "RedunModel.C21.legacy_partial",
]
TRUSTED = [
    "call nodes are opaque keys (one per task + evaluated arguments); the model covers one evaluation scope (the expression a "
    "task body returns) with leaf tasks returning plain values; which cond branch is taken / whether a caught expression fails "
    "is an input of the model (computed by a reference evaluation in the harness and confirmed by the real result)",
    "modelled, not verified: `_pending_expr` lookup by expression hash = structural equality of the expression; "
    "iter_nested_value visits every element of list/tuple/dict values; map_nested_value evaluates left to right",
    "the executor and the event queue are replaced by deterministic ones from the harness (no edit in /repo)",
]
ASSUMPTIONS = [
    "programs: one `main` task returning an expression over 7 real tasks: calls with positional/keyword/defaulted parameters "
    "(default expressions: a task call, getitem of a task call, a list with a task call, call + 1), lazy operators (+, reversed +, "
    "[0], [1]), lists, cond, catch (failing and non-failing, and nested catches whose inner recover task raises), apply_tags, prov=False calls, structurally equal sub-expressions as "
    "distinct objects (duplicates) including duplicated scheduler expressions",
    "a failing call occurs only as the protected expression of a catch (possibly of two different catches); scheduler expressions are not nested inside cond branches "
    "or catch bodies (their relative evaluation order would be timing dependent); every call carries a tag literal that makes "
    "call nodes of different expressions distinct",
]
RULE = ("one case = one generated program run once (plus a replay on the same backend for every 4th case; for every 3rd case an "
        "earlier execution on the same backend has already made half of the argument-producing calls, so they are cache hits; for "
        "another 3rd the program is run twice with some consuming tasks re-versioned in between, so `main` is a cache hit whose "
        "expression is deserialized while the re-versioned calls get new call nodes). All Argument and "
        "ArgumentResult rows of the calls made by `main` are read back as (call, slot, value hash, set of upstream calls) and "
        "compared with the model rows and with the specification (task calls reachable through non-task expressions). "
        "distinct = distinct programs; a program without any task-valued argument is trivial")

LEVEL_TEXT = (
    "Proved in Lean 4 on the bookkeeping model (Model/Upstreams.lean), universally quantified over all expressions and all "
    "consistent _pending_expr tables. Full strength (model mirrors the code after the three repairs committed in /repo): "
    "findUps_reach (_find_arg_upstreams = reachability through containers and _upstreams of non-task expressions), upstreams (the "
    "recorded upstream set of every expression = the task calls that produced its value: through lazy operators, containers, "
    "cond (condition + branch taken), catch (recovery call when caught), apply_tags; with duplicates of every kind, defaults, "
    "prov=False calls; the table stays consistent so the statement composes over a scope), rows_upstreams (every Argument row "
    "belongs to an evaluated call's parameter and links exactly its producers), defaults_as_kwargs (a call that runs records every "
    "parameter: positional, keyword, and defaulted ones as keyword arguments with the producers of the default expression), "
    "unevaluated_no_upstream. About the code before the repairs (legacy = true): legacy_refuted_duplicate_scheduler_expr and "
    "legacy_refuted_default_expr (closed counter-examples, by decide) and legacy_partial (agreement on scheduler-task-free "
    "expressions). Tie: generated programs are run for real; all Argument/ArgumentResult rows are compared with the model rows and "
    "independently with the specification; received values are re-hashed against Argument.value_hash.")
LEVEL_NOTE = (
    "The model covers one evaluation scope with leaf tasks returning plain values; which cond branch is taken and whether a caught "
    "expression fails are inputs (reference evaluation, confirmed against the real result); catch's own result cache is not in the "
    "model (after commit eae2824 a cache-served catch leaves the same bookkeeping as an evaluated one; exercised by warm-up "
    "executions). Not modelled: nested scopes' interaction beyond first-writer-wins of record_call_node, expressions returned by "
    "lazy operators, fork_thread/join_thread, subrun, pickled (remote) expressions whose bookkeeping is reset. Three defects found "
    "and fixed through this check: expression-valued defaults (F21), duplicated scheduler expressions, cache-served catch.")
TECHNIQUE = "Lean 4 proof on a hand-written bookkeeping model + differential audit of Argument/ArgumentResult rows of real runs"

KW = {"ka": 0, "kb": 1, "x": 2, "y": 3, "z": 4}


# ------------------------------------------------------------------ generator
class Gen:
    def __init__(self, rng):
        self.rng = rng
        self.tags = {}          # structure -> tag (structurally equal calls share the tag, hence the call node)
        self.pool = []          # int-typed expressions generated so far (for duplicates)
        self.sched_ok = True

    def tag(self, name, prov, args, kwargs):
        k = (name, prov, repr(args), repr(kwargs))
        if k not in self.tags:
            self.tags[k] = len(self.tags) + 1
        return self.tags[k]

    def call(self, name, prov, args, kwargs=()):
        args, kwargs = list(args), list(kwargs)
        return ("call", name, self.tag(name, prov, args, kwargs), prov, args, kwargs)

    def int_expr(self, depth, sched=True):
        rng = self.rng
        if self.pool and rng.random() < 0.22:
            cands = [e for e in self.pool if sched or not has_sched(e)]
            if cands:
                return rng.choice(cands)                  # a structurally equal duplicate (a new object when built)
        k = rng.random()
        if depth <= 0 or k < 0.2:
            e = ("lit", rng.randrange(0, 4)) if rng.random() < 0.4 else self.call("t", rng.random() > 0.1, [])
        elif k < 0.45:
            e = self.task_call(depth - 1, sched)
        elif k < 0.62:
            name = rng.choice(["add", "add", "radd", "getitem0", "getitem1"])
            if name == "add":
                e = ("op", "add", [self.task_call(depth - 1, sched), self.int_expr(depth - 1, sched)])
            elif name == "radd":
                e = ("op", "radd", [("lit", rng.randrange(1, 4)), self.task_call(depth - 1, sched)])
            else:
                e = ("op", name, [self.call("lst", rng.random() > 0.1, [self.int_expr(depth - 1, sched) for _ in range(rng.choice([0, 1]))])])
        elif not sched:
            e = self.task_call(depth - 1, False)
        elif k < 0.78:
            e = ("cond", self.int_expr(depth - 1, True), self.int_expr(depth - 1, False), self.int_expr(depth - 1, False))
        elif k < 0.9:
            if rng.random() < 0.6:
                body = self.call("boom", True, [self.int_expr(depth - 1, False) for _ in range(rng.choice([0, 1]))])
            else:
                body = self.int_expr(depth - 1, False)
            if body[0] == "call" and body[1] == "boom" and rng.random() < 0.35:
                # nested: the inner recover task raises, the outer catch handles that (the failing call may also be protected
                # by another catch elsewhere: an expression-level duplicate of a failing call)
                body = ("catch", body, "rb")
            e = ("catch", body)
        else:
            e = ("tags", self.int_expr(depth - 1, False))
        self.pool.append(e)
        return e

    def any_expr(self, depth, sched=True):
        rng = self.rng
        if rng.random() < 0.2 and depth > 0:
            return ("cont", [self.int_expr(depth - 1, sched) for _ in range(rng.choice([1, 2, 3]))])
        return self.int_expr(depth, sched)

    def task_call(self, depth, sched=True):
        rng = self.rng
        prov = rng.random() > 0.08
        name = rng.choice(["t", "t", "t", "d1", "d2", "d3"])
        if name == "t":
            args = [self.any_expr(depth, sched) for _ in range(rng.choice([0, 1, 1, 2, 3]))]
            kwargs = [(n, self.any_expr(depth, sched)) for n in rng.sample(["ka", "kb"], rng.choice([0, 0, 1, 2]))]
            return self.call("t", prov, args, kwargs)
        import gm_tasks21 as T
        params = T.PARAMS[name]
        npos = rng.randrange(0, len(params) + 1)
        args, kwargs = [], []
        for i, (pn, default) in enumerate(params):
            if i < npos:
                args.append(self.any_expr(depth, sched))
            elif default is None or rng.random() < 0.3:
                kwargs.append((pn, self.any_expr(depth, sched)))
        rng.shuffle(kwargs)
        return self.call(name, prov, args, kwargs)


def has_sched(e):
    k = e[0]
    if k in ("cond", "catch", "tags"):
        return True
    if k == "cont":
        return any(has_sched(x) for x in e[1])
    if k == "call":
        return any(has_sched(x) for x in e[4]) or any(has_sched(x) for _, x in e[5])
    if k == "op":
        return any(has_sched(x) for x in e[2])
    return False


def gen_program(rng):
    g = Gen(rng)
    n = rng.choice([1, 2, 2, 3])
    return ("cont", [g.task_call(rng.choice([1, 2, 2, 3])) for _ in range(n)])


def _fixed_corpus():
    g = Gen(None)
    f1 = g.call("t", True, [])                      # t(1)
    c1 = ("cond", ("lit", 1), g.call("t", True, [("lit", 2)]), g.call("t", True, [("lit", 3)]))
    w_dup = g.call("t", True, [c1, c1])             # the duplicated scheduler expression (was: 2nd argument lost its upstream)
    w_def = g.call("d1", True, [f1])                # defaulted y=src0(900)       (was: no upstream for y)
    w_def2 = g.call("d3", True, [("op", "add", [f1, ("lit", 1)])], [])
    ct = ("catch", g.call("boom", True, []))
    w_catch = g.call("t", True, [ct, ct, ("tags", f1), ("tags", f1)])
    w_np = g.call("t", True, [g.call("t", False, [("lit", 5)]), ("op", "getitem0", [g.call("lst", True, [])])],
                  [("ka", ("cont", [f1, ("lit", 1), g.call("t", True, [("lit", 6)])]))])
    w_cc = g.call("t", True, [("catch", g.call("boom", True, [("lit", 7)])), ("catch", g.call("t", True, [("lit", 8)]))])
    # order matters: run() runs case i with a warm-up execution when i % 3 == 1 (w_cc: catch served from its own cache)
    # index 2 (i % 3 == 2): re-versioned second execution; sink(cond(flag(), src(1), src(2))), tags, catch as arguments
    w_de = g.call("t", True, [("cond", g.call("t", True, [("lit", 20)]), g.call("t", True, [("lit", 21)]), g.call("t", True, [("lit", 22)])),
                              ("tags", g.call("lst", True, [("lit", 23)])), ("catch", g.call("t", True, [("lit", 24)]))])
    # nested catches: the inner recover raises, the outer catch handles it and its recover(error) gets a new call node
    w_nc = g.call("t", True, [("catch", ("catch", g.call("boom", True, [("lit", 30)]), "rb")),
                              ("catch", ("catch", g.call("t", True, [("lit", 31)]), "rb"))])
    # the same failing call protected by two different catches: the second occurrence is an expression-level duplicate
    bm = g.call("boom", True, [("lit", 40)])
    w_df = g.call("t", True, [("catch", bm), ("catch", ("catch", bm, "rb"))])
    progs = _corpus_head(g, w_dup, w_cc, w_de, w_nc, w_def, w_def2, w_catch, w_np)
    while not (len(progs) % 3 == 0 and len(progs) % 4 != 0):
        progs.append(("cont", [("lit", 1)]))            # w_df runs as a single plain execution (no warm-up / replay)
    return progs + [("cont", [w_df])]


def _corpus_head(g, w_dup, w_cc, w_de, w_nc, w_def, w_def2, w_catch, w_np):
    return [("cont", [w_dup]), ("cont", [w_cc]), ("cont", [w_de]), ("cont", [w_nc]), ("cont", [w_def]), ("cont", [w_def2, w_catch]), ("cont", [w_np]),
            ("cont", [("lit", 1)])]


# ------------------------------------------------------------------ program -> model syntax, specification
def defaults_of(e):
    import gm_tasks21 as T
    _, name, tag, prov, args, kwargs = e
    if name not in T.PARAMS:
        return []
    given = {pn for (pn, _), _ in zip(T.PARAMS[name], args)} | {n for n, _ in kwargs}
    return [(pn, d) for pn, d in T.PARAMS[name] if pn not in given]


def key_of(e, flags):
    """model key of a call = its tag (reserved: 900.. default sources, 1000+tag recover calls)"""
    return e[2]


def to_model(e, flags):
    """flags: reference evaluation results (taken / failed) keyed by id(spec node)"""
    import gm_tasks21 as T
    k = e[0]
    if k == "lit":
        return "(L %s)" % sx(e[1])
    if k == "cont":
        return "(K %s)" % " ".join(to_model(x, flags) for x in e[1])
    if k == "call":
        _, name, tag, prov, args, kwargs = e
        defs = defaults_of(e)
        return "(T %s %s (%s) (%s) (%s) (%s) (%s))" % (
            sx(tag), sx(bool(prov)), " ".join([to_model(("lit", tag), flags)] + [to_model(a, flags) for a in args]),
            " ".join(sx(KW[n]) for n, _ in kwargs), " ".join(to_model(a, flags) for _, a in kwargs),
            " ".join(sx(KW[n]) for n, _ in defs), " ".join(to_model(d, flags) for _, d in defs))
    if k == "op":
        return "(O %s)" % " ".join(to_model(x, flags) for x in e[2])
    if k == "cond":
        taken = bool(T.value_of(e[1]))
        return "(C %s %s %s %s)" % (to_model(e[1], flags), sx(taken), to_model(e[2], flags), to_model(e[3], flags))
    if k == "catch":
        failed, rec = catch_info(e)
        return "(X %s %s %s)" % (to_model(e[1], flags), sx(failed), sx(rec))
    if k == "tags":
        return "(G %s)" % to_model(e[1], flags)
    raise AssertionError(k)


def catch_info(e):
    """(did the protected expression raise, key of the recover call): rec(error) -> 1000 + n, rec_boom(error) -> 3000 + n"""
    import gm_tasks21 as T
    try:
        T.value_of(e[1])
        return False, 0
    except T.Boom as b:
        return True, (3000 if len(e) > 2 and e[2] == "rb" else 1000) + b.args[0]


def producers(e):
    """the specification: call nodes the value of `e` was produced by (mirrors `producers` in Model/Upstreams.lean)"""
    import gm_tasks21 as T
    k = e[0]
    if k == "lit":
        return set()
    if k == "cont":
        return set().union(*[producers(x) for x in e[1]]) if e[1] else set()
    if k == "call":
        return {e[2]} if e[3] else set()
    if k == "op":
        return set().union(*[producers(x) for x in e[2]])
    if k == "cond":
        return producers(e[1]) | (producers(e[2]) if T.value_of(e[1]) else producers(e[3]))
    if k == "catch":
        failed, rec = catch_info(e)
        return {rec} if failed else producers(e[1])
    if k == "tags":
        return producers(e[1])
    raise AssertionError(k)


def spec_rows(e, out, seen):
    """expected Argument rows: for every call that is evaluated (and records provenance), slot -> producers(argument)"""
    import gm_tasks21 as T
    k = e[0]
    if k == "cont":
        for x in e[1]:
            spec_rows(x, out, seen)
    elif k == "call":
        _, name, tag, prov, args, kwargs = e
        for a in args:
            spec_rows(a, out, seen)
        for _, a in kwargs:
            spec_rows(a, out, seen)
        for _, d in defaults_of(e):
            spec_rows(d, out, seen)
        if prov:
            out.setdefault((tag, ("p", 0)), (set(), "tag"))
            for i, a in enumerate(args):
                out.setdefault((tag, ("p", i + 1)), (producers(a), kind_of(a, seen)))
            for n, a in kwargs:
                out.setdefault((tag, ("k", KW[n])), (producers(a), kind_of(a, seen)))
            for n, d in defaults_of(e):
                out.setdefault((tag, ("k", KW[n])), (producers(d), "default"))
        seen.add("call:" + repr(e))
    elif k == "op":
        for x in e[2]:
            spec_rows(x, out, seen)
    elif k == "cond":
        spec_rows(e[1], out, seen)
        spec_rows(e[2] if T.value_of(e[1]) else e[3], out, seen)
    elif k == "catch":
        # the protected call was already evaluated elsewhere in the scope (under another catch): this occurrence is an
        # expression-level duplicate of a FAILING call
        dup_fail = e[1][0] == "call" and ("call:" + repr(e[1])) in seen
        spec_rows(e[1], out, seen)
        failed, rec = catch_info(e)
        if failed:
            out.setdefault((rec, ("p", 0)), (producers(e[1]), "duplicate-failing-call" if dup_fail else "recover"))
    elif k == "tags":
        spec_rows(e[1], out, seen)
    if k in ("cond", "catch", "tags"):
        seen.add(repr(e))


def catch_raises(e):
    import gm_tasks21 as T
    try:
        T.value_of(e)
        return False
    except T.Boom:
        return True


def evaluated_calls(e, out, top=True):
    """calls that the program evaluates as *arguments* (not the outermost ones), failing calls excluded: running them
    in an earlier execution makes them cache hits in the real run while the calls consuming them are new"""
    import gm_tasks21 as T
    k = e[0]
    if k == "cont":
        for x in e[1]:
            evaluated_calls(x, out, top)
    elif k == "call":
        if not top and e[1] != "boom":
            try:
                T.value_of(e)
                out.append(e)
            except T.Boom:
                pass
        for a in e[4]:
            evaluated_calls(a, out, False)
        for _, a in e[5]:
            evaluated_calls(a, out, False)
    elif k == "op":
        for x in e[2]:
            evaluated_calls(x, out, False)
    elif k == "cond":
        evaluated_calls(e[1], out, False)
        evaluated_calls(e[2] if T.value_of(e[1]) else e[3], out, False)
    elif k in ("catch", "tags"):
        if k == "catch" and not catch_raises(e):
            out.append(e)           # the catch itself: served from its own cache in the later execution
        evaluated_calls(e[1], out, False)


WARM = [False]
REVER = [False]


def has_catch(x):
    if x[0] == "catch":
        return True
    if x[0] == "cont":
        return any(has_catch(y) for y in x[1])
    if x[0] == "op":
        return any(has_catch(y) for y in x[2])
    if x[0] == "tags":
        return has_catch(x[1])
    if x[0] == "cond":
        return any(has_catch(y) for y in x[1:])
    return False


def kind_of(a, seen):
    """structural class of an argument, for the signature of a violation"""
    if WARM[0] and has_catch(a):
        return "cached-catch"
    if REVER[0] and has_sched(a):
        return "deserialized-scheduler-expr"

    def dup_sched(x):
        if x[0] in ("cond", "catch", "tags"):
            return repr(x) in seen
        if x[0] == "cont":
            return any(dup_sched(y) for y in x[1])
        if x[0] == "op":
            return any(dup_sched(y) for y in x[2])
        return False
    return "duplicate-scheduler-expr" if dup_sched(a) else "explicit"


def nontrivial(e):
    return any(p for p, _ in rows_of(e).values())


def rows_of(e):
    out = {}
    spec_rows(e, out, set())
    return out


# ------------------------------------------------------------------ one case on the real code
REVERSIONABLE = ["t", "lst", "d1", "d2", "d3"]


def reversion(names, version):
    """give the tasks a new version (= a new task hash, as after editing them) or restore the original one"""
    import gm_tasks21 as T
    from redun.task import get_task_registry
    reg = get_task_registry()
    for n in names:
        task = T.TASKS[n]
        reg._decrement_hash_count(task)
        task.version = version
        task.hash = task._calc_hash()
        reg._task_hash_counts[task.hash] += 1


def run_program(ctx, prog, replay_run=False, warm=False, rever=False):
    import gm_common as G
    import gm_tasks21 as T
    from redun.backends.db import Argument, CallNode
    import json
    case = {"program": prog, "mode": {"replay_run": replay_run, "warm": warm, "rever": rever}}
    with G.instrumented() as (log, watch):
        backend = None
        if warm:
            # an earlier execution on the same backend that already made the argument-producing calls
            inner = []
            evaluated_calls(prog, inner)
            if inner:
                run0 = G.CtlRun(ctx.rng, "fifo")
                backend = run0.backend
                catches = [x for x in inner if x[0] == "catch"]
                calls = [x for x in inner if x[0] != "catch"]
                r0 = run0.run(T.main(("cont", calls[: 1 + len(calls) // 2] + catches)))
                if r0[0] != "ok":
                    ctx.mismatch("warm-up execution failed (harness)", case, model="ok", impl=repr(r0)[:200])
                    return None
        run = G.CtlRun(ctx.rng, ctx.rng.choice(["fifo", "lifo", "rand"]), backend=backend)
        res = run.run(T.main(prog))
        final_from = 0
        old_nodes = set()
        if rever and res[0] == "ok":
            old_nodes = {h for (h,) in run.backend.session.query(CallNode.call_hash).all()}
            # second execution on the same database after some of the consuming tasks were re-versioned: `main` is a
            # single-reduction cache hit, so the expression it returned is DESERIALIZED, while the re-versioned calls get
            # new call nodes whose arguments are recorded from that deserialized expression
            names = [n for n in REVERSIONABLE if ctx.rng.random() < 0.6] or ["t"]
            final_from = len(watch.order)
            reversion(names, "v2")
            try:
                run = G.CtlRun(ctx.rng, ctx.rng.choice(["fifo", "lifo", "rand"]), backend=run.backend)
                res = run.run(T.main(prog))
            finally:
                reversion(names, None)
            mj = [watch.jobs[j] for j in watch.order[final_from:] if watch.jobs[j].task_name == "gm21.main"]
            if not (mj and mj[0].was_cached):
                ctx.mismatch("harness: main was not served from the cache in the re-versioned execution", case, model="cached",
                             impl=repr(mj and mj[0].was_cached))
        if replay_run:
            run2 = G.CtlRun(ctx.rng, "fifo", backend=run.backend)
            res2 = run2.run(T.main(prog))
            if res2 != res and not (res[0] == res2[0] == "err"):
                ctx.violation("C21-replay-result", "replay on the same backend returns another result", case, expected=repr(res)[:200],
                              actual=repr(res2)[:200])
        ses = run.backend.session
        ses.expire_all()
        registry = run.scheduler.type_registry
        want_value = "!Boom"
        try:
            want_value = T.value_of(prog)
        except T.Boom:
            pass
        if res[0] != "ok" or res[1] != want_value:
            ctx.mismatch("reference evaluation of the program differs from the real result (harness model of the tasks is wrong)",
                         case, model=repr(want_value), impl=repr(res)[:300])
            return None
        # label of a call node = tag (first positional argument); recover calls: 1000 + tag of the failed call
        label = {}
        nodes = ses.query(CallNode).all()
        for n in nodes:
            if n.task_name == "gm21.main":
                continue
            a0 = [a for a in n.arguments if a.arg_position == 0]
            v = a0[0].value_parsed if a0 else None
            if n.task_name in ("gm21.rec", "gm21.rec_boom"):
                label[n.call_hash] = (1000 if n.task_name == "gm21.rec" else 3000) + int(str(v.args[0])[1:])
            elif isinstance(v, int):
                label[n.call_hash] = v
        got = {}
        final_nodes = {watch.jobs[j].call_hash for j in watch.order[final_from:]}
        # re-versioned history: a call may have two nodes (old and new task hash) with the same label; the rows of the node
        # the last execution produced are the ones that count, so those are read last
        for n in sorted(nodes, key=lambda n: (n.call_hash in final_nodes and n.call_hash not in old_nodes, n.call_hash)):
            if n.call_hash not in label:
                continue
            fresh = rever and n.call_hash not in old_nodes
            for a in n.arguments:
                slot = ("p", a.arg_position) if a.arg_position is not None else ("k", KW.get(a.arg_key, 99))
                ups = set()
                for r in a.arg_results:
                    if fresh and r.result_call_hash not in final_nodes:
                        ups.add("stale:" + str(label.get(r.result_call_hash)))     # a new node linked to a node no job of this execution has
                    else:
                        ups.add(label.get(r.result_call_hash, "dangling:" + r.result_call_hash[:8]))
                key = (label[n.call_hash], slot)
                if key in got and got[key][4] == (n.call_hash in old_nodes) and not rever:
                    ctx.violation("C21-duplicate-argument-row", "two Argument rows for one parameter of a call", case,
                                  expected=key, actual=n.task_name)
                got[key] = (ups, a.value_hash, a.arg_position, a.arg_key, n.call_hash in old_nodes)
        # received values: from the job objects
        received = {}
        for jid in watch.order[final_from:]:
            r = watch.jobs[jid]
            if r.task_name == "gm21.main" or r.eval_args is None or not r.prov:
                continue
            pos, kw = r.eval_args
            if r.task_name in ("gm21.rec", "gm21.rec_boom"):
                lab = (1000 if r.task_name == "gm21.rec" else 3000) + int(str(pos[0].args[0])[1:])
            else:
                lab = pos[0]
            for i, v in enumerate(pos):
                received.setdefault((lab, ("p", i)), registry.get_hash(v))
            for n, v in kw.items():
                received.setdefault((lab, ("k", KW.get(n, 99))), registry.get_hash(v))
        G.release(run.backend)
    # ---- oracle: the property on the real rows
    WARM[0], REVER[0] = warm, rever
    want = rows_of(prog)
    WARM[0] = REVER[0] = False
    for key, (prods, kind) in sorted(want.items(), key=repr):
        if key not in got:
            ctx.violation("C21-argument-row-missing", "a recorded call has no Argument row for a parameter it received", case,
                          expected=key, actual=sorted(got, key=repr)[:8])
            continue
        ups = got[key][0]
        if ups != prods:
            sig = {"default": "C21-upstream-missing-default-expr", "cached-catch": "C21-upstream-missing-cached-catch",
                   "duplicate-failing-call": "C21-upstream-missing-duplicate-failing-call",
                   "deserialized-scheduler-expr": "C21-upstream-missing-deserialized-scheduler-expr",
                   "duplicate-scheduler-expr": "C21-upstream-missing-duplicate-scheduler-expr"}.get(kind, "C21-upstream-mismatch")
            if ups - prods:
                sig = "C21-upstream-spurious"
            ctx.violation(sig, "ArgumentResult rows of an argument differ from the task calls that produced it "
                          "(argument kind: %s)" % kind, case, expected={"arg": key, "upstream": sorted(prods)},
                          actual=sorted(ups, key=repr))
        if kind == "default" and (got[key][2] is not None or got[key][3] is None):
            ctx.violation("C21-default-not-keyword", "a defaulted parameter is not recorded as a keyword argument", case,
                          expected=key, actual=got[key][2:])
        if key in received and received[key] != got[key][1]:
            ctx.violation("C21-argument-value", "Argument.value_hash is not the hash of the value the task received", case,
                          expected=received[key], actual=got[key][1])
    for key in got:
        if key not in want:
            ctx.violation("C21-argument-row-spurious", "Argument row for a parameter the program did not pass", case, actual=key)
    return {k: sorted(v[0], key=lambda x: (isinstance(x, str), x)) for k, v in got.items()}


def parse_model(reply):
    from core import unsx
    out = {}
    parts = unsx(reply)
    rows = [p for p in parts if p and p[0] == "rows"][0][1:]
    for call, slot, ups in rows:
        key = (call, (str(slot[0]), slot[1]))
        out.setdefault(key, sorted(set(ups)))         # first writer wins (record_call_node skips an existing node)
    return out


def run(ctx):
    rng = ctx.rng
    progs = _fixed_corpus()
    for _ in range(ctx.n(110, 1500)):
        progs.append(gen_program(rng))
    results = []
    for i, p in enumerate(progs):
        got = run_program(ctx, p, replay_run=(i % 4 == 0), warm=(i % 3 == 1), rever=(i % 3 == 2))
        want = rows_of(p)
        kinds = {k for _, k in want.values()}
        ctx.case(key=repr(p) if nontrivial(p) else None, sample={"program": repr(p)[:300], "rows": len(want)},
                 rows=min(len(want) // 4 * 4, 40), defaults="default" in kinds, dup_sched="duplicate-scheduler-expr" in kinds,
                 recover="recover" in kinds, warm=(i % 3 == 1), reversioned=(i % 3 == 2), with_upstream=sum(1 for pr, _ in want.values() if pr) // 3 * 3)
        results.append((p, got))
    replies = ctx.model("C21", ["eval F " + to_model(p, None) for p, _ in results])
    for (p, got), reply in zip(results, replies):
        if got is None:
            continue
        if reply in ("bad-op", "bad-value"):
            ctx.mismatch("model driver rejected the request", case=repr(p)[:1000], model=reply, impl="")
            continue
        m = parse_model(reply)
        if m != got:
            diff_m = {k: v for k, v in m.items() if got.get(k) != v}
            diff_i = {k: v for k, v in got.items() if m.get(k) != v}
            dupfail = {k for k, (_, kind) in rows_of(p).items() if kind == "duplicate-failing-call"}
            sig = "correspondence"
            if dupfail and set(diff_i) <= dupfail and all(v == [] for v in diff_i.values()):
                # the model (like the specification) links the recover argument of a duplicated failing call; the code does not
                sig = "C21-upstream-missing-duplicate-failing-call"
            ctx.mismatch("Argument/ArgumentResult rows differ from the model", case={"program": p, "request": to_model(p, None)[:3000]},
                         model=sorted(diff_m.items(), key=repr)[:6], impl=sorted(diff_i.items(), key=repr)[:6], signature=sig)


def replay(ctx, case):
    c = case.get("case") or {}
    p = c.get("program") if isinstance(c, dict) else None
    if p is None:
        print("replay: no program in the case; running the normal check")
        return run(ctx)

    def fix(x):
        if isinstance(x, list) and x and isinstance(x[0], str) and x[0] in ("lit", "cont", "call", "op", "cond", "catch", "tags"):
            k = x[0]
            if k == "lit":
                return ("lit", x[1])
            if k == "cont":
                return ("cont", [fix(y) for y in x[1]])
            if k == "call":
                return ("call", x[1], x[2], x[3], [fix(y) for y in x[4]], [(n, fix(y)) for n, y in x[5]])
            if k == "op":
                return ("op", x[1], [fix(y) for y in x[2]])
            if k == "cond":
                return ("cond", fix(x[1]), fix(x[2]), fix(x[3]))
            return (k, fix(x[1])) + tuple(x[2:])
        return x
    p = fix(p)
    mode = c.get("mode") or {}
    print("replay program:", p, "mode:", mode)
    ctx.case(key=repr(p), replayed=True)
    got = run_program(ctx, p, replay_run=bool(mode.get("replay_run")), warm=bool(mode.get("warm")), rever=bool(mode.get("rever")))
    reply = ctx.model("C21", ["eval F " + to_model(p, None)])[0]
    print("model:", parse_model(reply))
    print("impl :", got)
    if got is not None and parse_model(reply) != got:
        ctx.mismatch("Argument/ArgumentResult rows differ from the model", case={"program": p}, model=parse_model(reply), impl=got)
