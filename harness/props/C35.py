"""C35 — Config -> get_config_dict() -> Config(config_dict=...) keeps sections, nesting and effective values (also with a
literal '$'); replace_config_dir only rewrites values containing the local config dir.
Model: lean/RedunModel/Model/Config.lean."""
import json
import os

from core import sx

ID = "C35"
# READY depends on the lead committing harness/findings_proposed/C35-escape-dollar.fix.diff to /repo: the model mirrors the
# repaired get_config_dict; on the tree without the repair the check reports the F13 inputs (and the leading-dot section name).
READY = True
LEAN_MODULES = ["RedunModel.Props.C35"]
LEAN_DRIVERS = ["C35"]
THEOREMS = [
    "RedunModel.C35.roundtrip",
    "RedunModel.C35.nesting_preserved",
    "RedunModel.C35.walk_rebuilds_names",
    "RedunModel.C35.roundtrip_values",
    "RedunModel.C35.readDict_escaped",
    "RedunModel.C35.interp_escape",
    "RedunModel.C35.beforeSet_escape",
    "RedunModel.C35.replace_only_containing",
    "RedunModel.C35.refuted_dollar_unescaped",
]
TRUSTED = [
    "configparser (Python 3.12) is modelled from its source, not verified: ExtendedInterpolation._interpolate_some / before_set, "
    "RawConfigParser.get/options/read_dict/set, SectionProxy item access; redun's RedunExtendedInterpolation (os.environ joins ${name} lookups)",
    "INI text parsing (Config.read_string) is outside the model: the model starts from the parser's raw option table (read back from "
    "parser._defaults / parser._sections after the real read_string); the generated INI texts exercise it on the real side only",
    "str.replace, str.split('.'), '.'.join are modelled by structural list functions (exercised by the tie)",
]
ASSUMPTIONS = [
    "section names are distinct and prefix-free as dotted paths ('[a]' together with '[a.b]' makes Config itself ill-defined: TypeError or a silently "
    "dropped section, depending on order) - such configs are generated for the correspondence but the round-trip oracle skips them",
    "the round-trip oracle applies to configurations all of whose options interpolate without error (otherwise get_config_dict itself raises; "
    "the error kind is still compared with the model)",
    "option names without '=', ':' and surrounding blanks, values without lines starting with '#' or ';' (INI syntax); text is valid UTF-8",
    "os.environ entries that are not valid UTF-8 are not sent to the model (no generated option refers to them)",
]
RULE = ("INI texts rendered from generated structures: 1-6 sections with dotted names (depth <= 3, shared prefixes, occasionally a leading "
        "empty component or a non-prefix-free pair), optional DEFAULT section, options whose values mix plain text, '$$', '$${x}', ${opt}, "
        "${sec:opt}, ${ENV}, chains of references up to the depth limit, dangling/ill-formed references, the local config dir, multi-line "
        "and empty values. For each: nesting, effective values, get_config_dict (with and without replace_config_dir) and the re-read "
        "Config on the real code vs the model; oracle: same sections / nesting / effective values after the round trip, and "
        "replace_config_dir acting as str.replace on effective values. Plus raw dictionaries (bad '$' syntax) through Config(config_dict=). "
        "distinct = distinct INI texts; non-trivial = has a dotted section name or a '$'")

LEVEL_TEXT = ("Proved in Lean on the model of the REPAIRED get_config_dict, full strength: roundtrip (every configuration with distinct "
              "prefix-free section names whose options all interpolate: the conversion succeeds, Config(config_dict=...) succeeds, has the "
              "same sections up to order, no DEFAULT, and in every section exactly the original effective items - whatever the values "
              "contain ($, references, environment variables) and in any environment on the reading side), nesting_preserved + "
              "walk_rebuilds_names (_parse_sections / convert_to_dict are inverse on prefix-free names: same leaf paths), roundtrip_values, "
              "readDict_escaped, interp_escape (interpolation inverts the escaping in every context), beforeSet_escape (read_dict accepts "
              "every escaped text), replace_only_containing. refuted_dollar_unescaped: without the escaping 'pa$$word' cannot be read back. "
              "Tie: generated INI texts through the real Config.read_string / get_config_dict / Config(config_dict=) vs the model (nesting, "
              "effective values incl. error kinds, dictionary, re-read config), raw dictionaries through read_dict; oracle = the statement.")
LEVEL_NOTE = ("The model mirrors /repo WITH harness/findings_proposed/C35-escape-dollar.fix.diff (escape '$' as '$$'; root of the walk None instead "
              "of ''); on a tree without it the check reports VIOLATION with concrete replays ('x = pa$$word', '[.c]'), by design. "
              "configparser's interpolation/read_dict are modelled from the Python 3.12 source; INI text parsing is not modelled (the model "
              "starts from the parser's raw table). replace_config_dir is proved only as 'values without the dir are unchanged' "
              "(replace_only_containing); that it acts as str.replace on effective values is checked by the oracle. Non-prefix-free section "
              "names ('[a]' with '[a.b]') are outside the claim (Config itself is ill-defined there).")
TECHNIQUE = "Lean 4 proof on a model of ExtendedInterpolation + Config sections trie + differential round trips of generated INI configurations"

COMPS = ["a", "b", "c", "x", "executors", "batch", "repos", "default", "backend", "A", "é"]
KEYS = ["x", "y", "z", "k", "path", "db_uri", "config_dir", "HOME", "VERIF_C35_A", "X", "role", "a.b"]
ENV = {"VERIF_C35_A": "envA", "VERIF_C35_D": "do$$llar", "VERIF_C35_R": "<${x}>", "VERIF_C35_E": ""}
LOCAL_DIRS = ["/home/u/proj/.redun", ".redun", "cfg", "/tmp/x y/.redun"]


# ------------------------------------------------------------------ generator
def gen_name(rng, existing, dirty):
    r = rng.random()
    if existing and r < 0.4:        # share a prefix with an existing name
        base = rng.choice(existing).split(".")
        cut = rng.randrange(0, len(base))
        parts = base[:cut] + [rng.choice(COMPS)]
        if rng.random() < 0.3:
            parts.append(rng.choice(COMPS))
    else:
        parts = [rng.choice(COMPS) for _ in range(rng.choice([1, 1, 2, 2, 3]))]
    if rng.random() < 0.03:
        parts[0] = ""               # leading dot
    if rng.random() < 0.02:
        parts.insert(1, "")
    if dirty and existing and rng.random() < 0.4:    # deliberately not prefix-free
        base = rng.choice(existing).split(".")
        parts = base + [rng.choice(COMPS)] if rng.random() < 0.5 else (base[:-1] or base)
    return ".".join(parts)


PLAIN = ["1", "abc", "value", "s3://bucket/key", "a b  c", "100%", "x=y", "k: v", "é", "{}", "}", "{x}", "a}b", "", "#x", "a;b"]
DOLLAR = ["pa$$word", "$$", "$$$$", "a$$b$$c", "$${x}", "$${HOME}", "cost: $$5", "$$}", "$${", "x$$", "$$x", "$${a:b}"]
BROKEN = ["$", "a$b", "${", "${}", "${x", "${a:b:c}", "$x", "${x}$", "${:}", "${:x}", "${a:}", "${nope}", "${nosec:x}", "${x${y}}", "${VERIF_C35_NOPE}"]


def gen_value(rng, local_dir, earlier_own, earlier_other, dirty, depth=0):
    """earlier_own: option names of the same section (or DEFAULT) defined before this one; earlier_other: (section, option) defined before.
    A clean value only refers to those, so it interpolates without error and without cycles."""
    r = rng.random()
    if dirty and r < 0.25:
        return rng.choice(BROKEN + ["${%s}" % rng.choice(KEYS), "${%s:%s}" % (rng.choice(COMPS + ["DEFAULT"]), rng.choice(KEYS))])
    r = rng.random()
    if r < 0.2:
        return rng.choice(PLAIN)
    if r < 0.35:
        return rng.choice(DOLLAR)
    if r < 0.5 and earlier_own:
        return "${%s}" % rng.choice(earlier_own)
    if r < 0.62 and earlier_other:
        return "${%s:%s}" % rng.choice(earlier_other)
    if r < 0.7:
        e = rng.choice(list(ENV) + ["HOME"])
        if e == "VERIF_C35_R" and "x" not in earlier_own and not dirty:     # its value refers to option x of the section
            e = "VERIF_C35_A"
        return "${%s}" % e
    if r < 0.8:
        return rng.choice([local_dir + "/redun.db", "sqlite:///" + local_dir + "/redun.db", local_dir, local_dir + local_dir, "x" + local_dir[:-1],
                           local_dir + "/$$x", local_dir.replace("/", "$$")])
    if r < 0.86:
        return rng.choice(["line1\nline2", "a\n\nb", "l1\n$$\nl3", "$$\n$$"])
    if depth < 2:
        return gen_value(rng, local_dir, earlier_own, earlier_other, dirty, depth + 1) + rng.choice(["", "/", "-", " "]) + \
            gen_value(rng, local_dir, earlier_own, earlier_other, dirty, depth + 1)
    return "v"


def uses_env(v):
    return any("${%s}" % e in v for e in list(ENV) + ["HOME"])


def gen_struct(rng, local_dir):
    """([(section name, [(key, value)])], defaults or None); ~75 % are clean (every option interpolates, names prefix-free)"""
    dirty = rng.random() < 0.25
    names = []
    for _ in range(rng.choice([1, 2, 2, 3, 3, 4, 6])):
        n = gen_name(rng, names, dirty)
        if n in names or n in ("DEFAULT", ""):
            continue
        if not dirty and not prefix_free(names + [n]):
            continue
        names.append(n)
    defaults = None
    dkeys = []
    tainted = set()
    earlier_other = []
    if rng.random() < 0.3:
        defaults = []
        for k in rng.sample(KEYS, rng.choice([1, 2, 3])):
            v = gen_value(rng, local_dir, [x for x in dkeys if x not in tainted], [], dirty)
            defaults.append((k, v))
            dkeys.append(k)
            if uses_env(v):
                tainted.add(k)      # environment variables are only visible at the top level of an interpolation:
            else:                   # an option whose raw value names one cannot be referred to by another option
                earlier_other.append(("DEFAULT", k))
    secs = []
    for n in names:
        opts = []
        # a DEFAULT key may be referred to unless the section overrides it later (then the reference would be to the later, own value)
        keys = rng.sample(KEYS, rng.choice([0, 1, 2, 2, 3, 4]))
        own = [k for k in dkeys if k not in keys and k not in tainted]
        clean_keys = []
        for k in keys:
            v = gen_value(rng, local_dir, list(own), list(earlier_other), dirty)
            opts.append((k, v))
            if not uses_env(v):
                own.append(k)
                clean_keys.append(k)
        for k in clean_keys:
            earlier_other.append((n, k))
        for k in dkeys:
            if k not in keys and k not in tainted:
                earlier_other.append((n, k))
        secs.append((n, opts))
    if rng.random() < 0.15 and secs:     # a reference chain (depth limit is 10)
        n = rng.choice([3, 8, 9, 9, 10, 12]) if dirty else rng.choice([3, 7, 8, 9])
        chain = [("c%d" % i, "${c%d}" % (i + 1)) for i in range(n)] + [("c%d" % n, rng.choice(["end", "e$$nd"]))]
        secs[0] = (secs[0][0], secs[0][1] + chain)
    return secs, defaults


def render(secs, defaults):
    out = []

    def emit(name, opts):
        out.append("[%s]" % name)
        for k, v in opts:
            lines = v.split("\n")
            out.append("%s = %s" % (k, lines[0]))
            for ln in lines[1:]:
                out.append("    " + ln if ln else "")
        out.append("")
    if defaults is not None:
        emit("DEFAULT", defaults)
    for n, o in secs:
        emit(n, o)
    return "\n".join(out) + "\n"


CORPUS = [
    "[a]\nx = pa$$word\n",                                   # F13
    "[a]\nx = $${y}\ny = 1\n",                               # F13 second form: '${y}' re-interpolated after the round trip
    "[.c]\ny = 2\n[c]\ny = 3\n",                             # leading empty component
    "[DEFAULT]\nd = 1\n[a]\nx = ${d}\n[b.c]\ny = ${a:x}\n",
    "[a.x]\nk = 1\n[b]\nk = 2\n[a.y]\nk = 3\n",
    "[a]\nx = ${x}\n", "[a]\nx = ${b:y}\n[b]\ny = ${a:x}\n", "[a]\nX = 1\nx = 2\n", "[a]\nx = a\n  b\n\n  c\n", "[a]\nx =\n",
    "[a]\nx = ${a:y:z}\n", "[a]\nx = ${}\n", "[a]\nx = $\n", "[a]\nx = ${b\n", "[a]\nx = ${nope}\n", "[a..b]\nx = 1\n[.c]\ny = 2\n",
    "[a.b]\nx = 1\n[a]\ny = 2\n", "[a]\ny = 2\n[a.b]\nx = 1\n", "[a]\nHOME = zzz\nx = ${HOME}\n", "[a]\nx = ${VERIF_C35_D}\ny = ${VERIF_C35_R}\n",
    "[backend]\ndb_uri = sqlite:///.redun/redun.db\nconfig_dir = .redun\n[repos.default]\nconfig_dir = .redun\n",
    "[a]\nx = ${DEFAULT:d}\n[DEFAULT]\nd = $$\n", "[a]\n", "", "[executors.batch]\nrole = ${VERIF_C35_A}\nimage = img\n[executors.default]\ntype = local\n",
]


# ------------------------------------------------------------------ protocol
def enc_ok(s):
    try:
        s.encode("utf-8")
        return True
    except UnicodeEncodeError:
        return False


def s_opts(items):
    return "".join(" (%s %s)" % (sx(k), sx(v)) for k, v in items)


def s_dict(d):
    """dict or list of (name, dict) -> 'ok (S ..) (S ..)' body"""
    items = d.items() if isinstance(d, dict) else d
    return " ".join("(S %s%s)" % (sx(n), s_opts(o.items() if isinstance(o, dict) else o)) for n, o in items)


def s_ok(d):
    b = s_dict(d)
    return "ok " + b if b else "ok"


def s_cfg(defaults, sections):
    return "(C (D%s) %s)" % (s_opts(defaults.items()), s_dict(sections)) if sections else "(C (D%s))" % s_opts(defaults.items())


def s_node(obj, Proxy):
    if isinstance(obj, Proxy):
        return "(l %s)" % sx(obj.name)
    return "(n" + "".join(" (%s %s)" % (sx(k), s_node(obj[k], Proxy)) for k in obj.keys()) + ")"


def nest_canon(obj, Proxy):
    if isinstance(obj, Proxy):
        return ("l", obj.name)
    return ("n", tuple(sorted((k, nest_canon(obj[k], Proxy)) for k in obj.keys())))


def errname(e):
    return "!" + type(e).__name__


def effective(cfg):
    """[(section, {option: effective value})] in parser order; raises what the parser raises"""
    out = []
    for name in cfg.parser.sections():
        proxy = cfg.parser[name]
        out.append((name, {k: proxy[k] for k in proxy}))
    return out


def prefix_free(names):
    paths = [tuple(n.split(".")) for n in names]
    for i, p in enumerate(paths):
        for j, q in enumerate(paths):
            if i != j and p == q[:len(p)]:
                return False
    return True


# ------------------------------------------------------------------ run
def run(ctx, only_texts=None):
    from configparser import SectionProxy
    from redun.config import Config
    rng = ctx.rng
    saved_env = dict(os.environ)
    reqs, plan = [], []
    try:
        for k, v in ENV.items():
            os.environ[k] = v
        os.environ.pop("VERIF_C35_NOPE", None)
        batches = []
        if only_texts is not None:
            batches.append((LOCAL_DIRS[0], list(only_texts)))
        else:
            n = ctx.n(1200, 15000)
            batches.append((LOCAL_DIRS[0], list(CORPUS)))
            for i, ld in enumerate(LOCAL_DIRS):
                batches.append((ld, [render(*gen_struct(rng, ld)) for _ in range(n // len(LOCAL_DIRS))]))
        for local_dir, texts in batches:
            os.environ["REDUN_CONFIG"] = local_dir
            env_items = [(k, v) for k, v in os.environ.items() if enc_ok(k) and enc_ok(v)]
            reqs.append("env (E%s)" % s_opts(env_items))
            plan.append(("env", None, "ok"))
            for text in texts:
                one_config(ctx, rng, Config, SectionProxy, text, local_dir, reqs, plan)
        if only_texts is None:
            raw_dicts(ctx, rng, Config, SectionProxy, reqs, plan)
    finally:
        os.environ.clear()
        os.environ.update(saved_env)
    out = ctx.model("C35", reqs)
    for (what, case, impl), mo in zip(plan, out):
        if mo != impl:
            ctx.mismatch(what + " differs from the model", case=case, model=mo[:600], impl=impl[:600])


def one_config(ctx, rng, Config, SectionProxy, text, local_dir, reqs, plan):
    cfg = Config()
    read_err = None
    try:
        cfg.read_string(text)
    except TypeError as e:          # _parse_sections walked into a SectionProxy
        read_err = errname(e)
    except Exception as e:  # noqa: BLE001   (INI syntax error, duplicate section: not a configuration)
        ctx.case(key=None, stream="ini", outcome="not-ini:" + type(e).__name__)
        return
    defaults = dict(cfg.parser._defaults)
    sections = [(n, dict(o)) for n, o in cfg.parser._sections.items()]
    if not all(enc_ok(x) for x in [text]):
        return
    names = [n for n, _ in sections]
    mcfg = s_cfg(defaults, sections)
    dom = prefix_free(names)
    has_dollar = "$" in text
    ctx.case(key=("ini", text) if (has_dollar or any("." in n for n in names)) else None,
             sample=sample(ctx, text, has_dollar, names), stream="ini", sections=min(len(names), 6),
             dotted=sum(1 for n in names if "." in n) > 0, dollar=has_dollar, prefix_free=dom, local_dir=local_dir)

    # nesting
    reqs.append("nest " + mcfg)
    plan.append(("Config._sections nesting", text, read_err or "ok " + s_node(cfg._sections, SectionProxy)))
    if read_err:
        ctx.count("outcome", "read_string-TypeError")
        return
    # effective values
    try:
        eff = effective(cfg)
        eff_s = s_ok(eff)
    except Exception as e:  # noqa: BLE001
        eff, eff_s = None, errname(e)
    reqs.append("effective " + mcfg)
    plan.append(("effective (interpolated) option values", text, eff_s))
    ctx.count("outcome", "effective-ok" if eff is not None else eff_s)

    # get_config_dict, plain and with replace_config_dir
    repl = rng.choice([".", "/new/dir", "", "R$", local_dir + "/sub"])
    results = {}
    for r in (None, repl):
        try:
            d = cfg.get_config_dict() if r is None else cfg.get_config_dict(replace_config_dir=r)
            d_s = s_ok(d)
        except Exception as e:  # noqa: BLE001
            d, d_s = None, errname(e)
        reqs.append("dict %s %s %s" % (mcfg, sx(local_dir), "N" if r is None else sx(r)))
        plan.append(("get_config_dict(replace_config_dir=%r)" % (r,), text, d_s))
        # and back
        back = None
        if d is not None:
            try:
                cfg2 = Config(config_dict=d)
                back = (effective(cfg2), cfg2)
                back_s = s_ok(back[0]) + " ; " + s_node(cfg2._sections, SectionProxy)
            except Exception as e:  # noqa: BLE001
                back_s = errname(e)
        else:
            back_s = d_s
        reqs.append("roundtrip %s %s %s" % (mcfg, sx(local_dir), "N" if r is None else sx(r)))
        plan.append(("Config(config_dict=get_config_dict(replace_config_dir=%r))" % (r,), text, back_s))
        results[r] = (d, back, back_s)

    # ---------------- property oracle on the real code (domain: prefix-free names, every option interpolates)
    if eff is None or not dom:
        return
    E = dict(eff)
    lead_dot = any(n.startswith(".") for n in names)

    for r, (d, back, back_s) in results.items():
        want = {s: {k: (v if r is None else v.replace(local_dir, r)) for k, v in o.items()} for s, o in E.items()}
        case = {"ini": text, "replace_config_dir": r, "local_config_dir": local_dir}
        dollar_eff = any("$" in v for o in want.values() for v in o.values())

        def sig(base):
            """structural class of the failing input"""
            if base in ("sections-differ", "nesting-differs") and lead_dot:
                return "C35-leading-dot-section-" + base
            if dollar_eff and base in ("roundtrip-raises", "values-differ", "replace-differs"):
                return "C35-dollar-in-effective-value-" + base
            return "C35-" + base
        if d is None or back is None:
            ctx.violation(sig("roundtrip-raises"), "Config -> get_config_dict -> Config(config_dict=...) raises", case=case,
                          expected=json.dumps(want, sort_keys=True)[:400], actual=back_s[:300])
            continue
        got = {s: o for s, o in back[0]}
        if set(got) != set(want):
            ctx.violation(sig("sections-differ"), "the round trip changes the set of sections", case=case, expected=sorted(want), actual=sorted(got))
        elif got != want:
            what = "the round trip changes effective option values" if r is None else \
                "replace_config_dir does not act as a replacement of the local config dir on the effective values"
            ctx.violation(sig("values-differ" if r is None else "replace-differs"), what, case=case,
                          expected=json.dumps(want, sort_keys=True)[:400], actual=json.dumps(got, sort_keys=True)[:400])
        elif nest_canon(back[1]._sections, SectionProxy) != nest_canon(cfg._sections, SectionProxy):
            ctx.violation(sig("nesting-differs"), "the round trip changes the nesting of sections", case=case,
                          expected=repr(nest_canon(cfg._sections, SectionProxy))[:300], actual=repr(nest_canon(back[1]._sections, SectionProxy))[:300])


def raw_dicts(ctx, rng, Config, SectionProxy, reqs, plan):
    """Config(config_dict=d) on arbitrary two-level dictionaries: before_set syntax check, DEFAULT, nesting errors."""
    vals = ["1", "", "$", "$$", "$$$", "a$b", "${x}", "${}", "${x", "$${x}", "${a:b}", "${a:b:c}", "$${", "x$$y$", "${x}$", "$ {x}", "${x}${y}", "${${x}}",
            "$$${x}", "}${", "${x\n}"]
    for _ in range(ctx.n(300, 4000)):
        d = {}
        for _ in range(rng.choice([1, 2, 3])):
            name = rng.choice(["a", "b", "a.b", "a.c", "b.c", "DEFAULT", "x.y.z", "a.b.c", ".a"])
            d[name] = {rng.choice(KEYS[:5]): rng.choice(vals) for _ in range(rng.choice([0, 1, 2, 3]))}
        try:
            cfg = Config(config_dict=d)
            impl = s_ok(effective(cfg)) + " ; " + s_node(cfg._sections, SectionProxy)
        except Exception as e:  # noqa: BLE001
            impl = errname(e)
        reqs.append("readdict (X %s)" % s_dict(d) if d else "readdict (X)")
        plan.append(("Config(config_dict=...)", json.dumps(d), impl))
        ctx.case(key=("dict", json.dumps(d)), stream="raw-dict", outcome=impl if impl.startswith("!") else "ok")


_S = {}


def sample(ctx, text, has_dollar, names):
    k = (id(ctx), has_dollar, any("." in n for n in names))
    if k in _S or len(text) > 300 or len(names) < 2:
        return None
    _S[k] = 1
    return {"ini": text}


def replay(ctx, case):
    c = case.get("case") or {}
    print("replay case:", json.dumps(c, default=repr)[:800])
    if isinstance(c, dict) and "ini" in c:
        run(ctx, only_texts=[c["ini"]])
    else:
        run(ctx)
