"""Fixed library of real redun tasks for the C01 / C12 / C38 checks (group gB1).

Every task here has a hand-written counterpart in lean/RedunModel/Model/EvalLib.lean (`libBody`); the two
are tied by the correspondence run (each task is called by generated programs).  Keep the bodies tiny and
deterministic: ints, strs, lists, tuples, dicts, sets, one namedtuple, one dataclass, exceptions.
Module-level so that process-mode executors and sub-schedulers can import it (`props._evallib`).
"""
import dataclasses
import os
import threading
from collections import namedtuple
from typing import Any

import redun
from redun import get_context, task
from redun.functools import const, map_, seq
from redun.scheduler import apply_tags, catch, catch_all, cond, fork_thread, join_thread, subrun

redun.namespace("ev")

P = namedtuple("P", ["x", "y"])


@dataclasses.dataclass
class D:
    a: Any
    b: Any


class LibError(Exception):
    pass


class LibSubError(LibError):
    pass


class BusyError(LibError):
    """an error that cannot be pickled (it keeps a lock): recorded through the scheduler's fallback"""

    def __init__(self, msg, resource=None):
        super().__init__(msg)
        self.resource = resource


ERR = {"V": ValueError, "K": KeyError, "L": LibError, "S": LibSubError, "Z": ZeroDivisionError, "T": TypeError}


# ------------------------------------------------------------------ plain python functions (apply_func / as_task)
def py_double(x):
    return x + x


def py_swap(a, b):
    return (b, a)


def py_fan(n):
    """a plain helper whose VALUE is a container of task calls"""
    return [inc(i) for i in range(n)]


def py_plan(x, kind):
    return {"a": inc(x), "b": (x, raiser(kind, "pf") if kind else twice(x))}


class Plan:
    """a plain user class (a leaf for the scheduler): `plan.steps()` is a list of task calls, `plan[i]` a tuple holding one"""

    def __init__(self, n, kind=None):
        self.n = n
        self.kind = kind

    def steps(self):
        calls = [inc(i) for i in range(self.n)]
        return calls + [raiser(self.kind, "plan")] if self.kind else calls

    def __getitem__(self, i):
        return (i, inc(i + self.n))

    def __eq__(self, other):
        return isinstance(other, Plan) and (self.n, self.kind) == (other.n, other.kind)

    def __hash__(self):
        return hash((self.n, self.kind))


PYFUNCS = {"len": len, "sum": sum, "py_double": py_double, "py_swap": py_swap, "py_fan": py_fan, "py_plan": py_plan}

# every execution of a raising leaf (thread-mode executors share it with the harness): ("raiser", kind, tag)
CALL_LOG = []


# ------------------------------------------------------------------ value tasks
@task()
def inc(x):
    return x + 1


@task()
def add(a, b=10):
    return a + b


@task()
def mul(a, b):
    return a * b


@task()
def neg(x):
    return -x


@task()
def mklist(n):
    return list(range(n))


@task()
def pair(a, b):
    return (a, b)


@task()
def total(xs):
    return sum(xs)


@task()
def raiser(kind, tag):
    CALL_LOG.append(("raiser", kind, tag))
    raise ERR[kind]("%s-%s" % (kind, tag))


MODULE_LAMBDA = lambda x: x  # noqa: E731  (pickle refuses it with PicklingError)


@task()
def busy_lambda(tag):
    CALL_LOG.append(("busy", "B", tag))
    raise BusyError("B-%s" % tag, MODULE_LAMBDA)


@task()
def busy_local(tag):
    def local():
        return tag
    CALL_LOG.append(("busy", "B", tag))
    raise BusyError("B-%s" % tag, local)         # pickle refuses a local function with AttributeError


@task()
def busy(tag):
    CALL_LOG.append(("busy", "B", tag))
    raise BusyError("B-%s" % tag, threading.Lock())


# state OUTSIDE redun (not an argument, not in any hash): a flag directory set by the harness
FLAKY = {"dir": None}


@task()
def flaky(tag):
    """fails the first time it runs for `tag` (transient failure), succeeds afterwards"""
    CALL_LOG.append(("flaky", "F", tag))
    flag = os.path.join(FLAKY["dir"], "flaky-%s" % tag)
    if not os.path.exists(flag):
        open(flag, "w").close()
        raise ValueError("flaky-%s" % tag)
    return 2


@task()
def mkplan(n, kind=None):
    return Plan(n, kind)


@task()
def maybe_fail(x, bad):
    if x == bad:
        raise ValueError("bad-%d" % x)
    return x


@task()
def first(xs):
    return xs[0]


@task()
def kwonly(a, *, k=3, m):
    return a * 100 + k * 10 + m


@task()
def varsum(a, *rest, scale=1):
    return (a + sum(rest)) * scale


# ------------------------------------------------------------------ tasks with expression-valued defaults
@task()
def addx(a, b=inc(1)):
    return a + b


@task()
def addxx(a, b=inc(inc(5)), c=add(1)):
    return [a, b, c]


@task()
def dflt_fail(a, b=raiser("V", "dflt")):
    return a


# ------------------------------------------------------------------ tasks returning expressions
@task()
def twice(x):
    return inc(inc(x))


@task()
def fan(n):
    return [inc(i) for i in range(n)]


@task()
def rsum(n):
    if n <= 0:
        return 0
    return add(n, rsum(n - 1))


@task()
def countdown(n):
    if n <= 0:
        return n
    return countdown(n - 1)


@task()
def apply2(f, x):
    return f(f(x))


@task()
def choose(c, a, b):
    return cond(c, inc(a), neg(b))


@task()
def guard(x, bad):
    return catch(maybe_fail(x, bad), ValueError, rec_val)


@task()
def guard_deep(kind, tag):
    return catch(inc(raiser(kind, tag)), (LibError, KeyError), rec_val, ValueError, rec_raise)


@task()
def rec_val(err):
    return ["rec", type(err).__name__, err.args[0]]


@task()
def rec_raise(err):
    raise LibError("re-" + str(err.args[0]))


@task()
def rec_zero(err):
    return 0


@task()
def rec_reraise(err):
    raise err


@task()
def rec_count(values):
    return sum(1 for v in values if isinstance(v, Exception))


@task()
def rec_count_raise(values):
    raise LibError("n=%d" % sum(1 for v in values if isinstance(v, Exception)))


@task()
def mkdict(k, v):
    return {k: inc(v), "n": [v, inc(v)]}


@task()
def wrap_nt(a, b):
    return P(inc(a), b)


@task()
def wrap_dc(a, b):
    return D(a=inc(a), b=[b, inc(b)])


@task()
def nt_sum(p):
    return p.x + p.y


@task()
def forker(x):
    return fork_thread(inc(x))


@task()
def joiner(th):
    return join_thread(th)


@task()
def fork_join(x):
    return joiner(forker(x))


@task()
def fire_forget(x, kind):
    return const(x, fork_thread(raiser(kind, "ff")))


@task()
def fork_fail_join(kind):
    return joiner(fork_thread(raiser(kind, "fj")))


# the forking job concludes (returns the Thread) while a MULTI-STEP expression keeps being evaluated under it
@task()
def fork_seq(n):
    return fork_thread(seq([inc(i) for i in range(n)]))


@task()
def fork_cond(x):
    return fork_thread(cond(inc(x) == 1, twice(10), neg(inc(x))))


@task()
def fork_map(n):
    return fork_thread(map_(inc, mklist(n)))


@task()
def fork_catch(kind):
    return fork_thread(catch(inc(raiser(kind, "fc")), Exception, rec_val))


@task()
def fork_lazy_call(x):
    return fork_thread(first([inc, x])(x))


@task()
def fork_deep(n, kind):
    return fork_thread(seq([inc(1), fail_after(n, kind), inc(2)]))


@task()
def join_all(ths):
    return [join_thread(th) for th in ths]


@task()
def tagit(x):
    return apply_tags(inc(x), tags=[("tk", "tv")], job_tags=[("jk", 1)], execution_tags=[("ek", "ev")])


@task()
def seq_list(n):
    return seq([inc(i) for i in range(n)])


@task()
def mapper(n):
    return map_(inc, mklist(n))


@task()
def fail_after(n, kind):
    """n nested jobs, then a raising leaf (error at depth n)."""
    if n <= 0:
        return raiser(kind, "deep")
    return fail_after(n - 1, kind)


@task()
def fail_in_list(n, bad):
    return [maybe_fail(i, bad) for i in range(n)]


@task()
def sub_twice(x, new_execution=False):
    return subrun(twice(x), executor="default", new_execution=new_execution)


# ------------------------------------------------------------------ tasks with shallow validity checking (ultimate reduction)
@task(check_valid="shallow")
def s_inc(x):
    return x + 1


@task(check_valid="shallow")
def s_raiser(kind, tag):
    CALL_LOG.append(("raiser", kind, tag))
    raise ERR[kind]("%s-%s" % (kind, tag))


@task(check_valid="shallow")
def s_fail_after(n, kind):
    if n <= 0:
        return s_raiser(kind, "sdeep")
    return s_fail_after(n - 1, kind)


# ------------------------------------------------------------------ tasks reading the context
@task()
def ctx_scale(x, k=get_context("k", 1), m=get_context("m", 1)):
    return x * k * m


@task()
def ctx_offset(x, j=get_context("j", 0)):
    return x + j


@task()
def ctx_flow(x):
    return [ctx_offset(ctx_scale(x)), ctx_scale(x + 1)]


@task()
def ctx_body(x):
    return [x, get_context("k", -1), get_context("q", None)]


@task()
def ctx_inner_override(x):
    return [ctx_scale.update_context(k=9)(x), ctx_scale(x)]


# callers used by the C38 check: evaluate a quoted sub-workflow directly / through subrun from inside a job
@task()
def direct_of(qe):
    return qe.eval()


@task()
def sub_of(qe, new_execution):
    return subrun(qe.eval(), executor="default", new_execution=new_execution)


@task()
def sub_of_cfg(qe, new_execution, config):
    """as sub_of, with an explicit sub-scheduler config (a prov=False caller cannot share a sqlite file with the
    sub-scheduler: redun's own test_subrun_no_prov gives the sub-scheduler its own database)"""
    return subrun(qe.eval(), executor="default", new_execution=new_execution, config=config)


# ------------------------------------------------------------------ async tasks (free-running modes only)
@task(cache=True, check_valid="shallow")
async def a_inc(x):
    return x + 1


@task(cache=True, check_valid="shallow")
async def a_twice(x):
    y = await inc(x)
    return inc(y)


@task(cache=True, check_valid="shallow")
async def a_fail(tag):
    CALL_LOG.append(("a_fail", "L", tag))
    raise LibError("L-%s" % tag)


@task(cache=True, check_valid="shallow")
async def a_await_fail(kind, tag):
    """a cached async ancestor of a failing sync call"""
    v = await raiser(kind, tag)
    return v


redun.namespace("")
