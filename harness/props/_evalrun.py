"""Running generated programs on the real Scheduler for C01 / C12 / C38 (group gB1).

* `fresh_scheduler(ctl)`      in-memory backend restored from a migrated template (skips re-running the alembic
                              migrations; the database content is identical to what `Scheduler.load()` produces)
* `RecCtl`                    ctl_sched.Ctl that also records, per completed job, whether the task function raised
* `run_ctl(expr, seed)`       one controlled run, completion order seeded
* `free_scheduler(...)`       real LocalExecutor (thread pool / process pool (fork) / async loop), file or memory backend
* `with_timeout(sec)`         SIGALRM guard around free-running runs
"""
import contextlib
import os
import random
import signal

import ctl_sched
from redun import Scheduler
from redun.config import Config

from props import _evalgen as G

ctl_sched.quiet()

_TEMPLATE = None


def _template():
    global _TEMPLATE
    if _TEMPLATE is None:
        s = ctl_sched.make_scheduler()
        raw = s.backend.engine.raw_connection()
        try:
            _TEMPLATE = raw.driver_connection.serialize()
        finally:
            raw.close()
    return _TEMPLATE


def _base_cfg(db_uri, mode="thread"):
    return {"backend": {"db_uri": db_uri},
            "executors.default": {"type": "local", "max_workers": "4", "mode": mode, "start_method": "fork"}}


def fresh_scheduler(ctl=None):
    sched = Scheduler(config=Config(_base_cfg("sqlite:///:memory:")))
    be = sched.backend
    orig = be.create_engine

    def create_engine():
        eng = orig()
        raw = eng.raw_connection()
        try:
            raw.driver_connection.deserialize(_template())
        finally:
            raw.close()
        return eng

    be.create_engine = create_engine
    sched.load()
    if ctl is not None:
        ctl.attach(sched)
    return sched


def sibling_scheduler(sched, ctl=None):
    """a new Scheduler object on the same (already loaded) backend: a later `redun run` against the same database"""
    s2 = Scheduler(config=sched.config, backend=sched.backend)
    if ctl is not None:
        ctl.attach(s2)
    return s2


def free_scheduler(db_uri="sqlite:///:memory:", mode="thread"):
    if db_uri == "sqlite:///:memory:":
        s = fresh_scheduler()
        # fresh_scheduler builds thread-mode executors with the same config
        return s
    sched = Scheduler(config=Config(_base_cfg(db_uri, mode)))
    sched.load()
    return sched


class RecCtl(ctl_sched.Ctl):
    """Ctl + a log of what every completed job's task function did."""

    def __init__(self, *a, **k):
        super().__init__(*a, **k)
        self.done = []          # (job, "ok" | ("err", cls, msg))

    def attach(self, sched):
        # keep the event queue (and what is still queued in it) when re-attached to the same scheduler
        if isinstance(getattr(sched, "events_queue", None), ctl_sched.CtlQueue) and sched.events_queue.ctl is self:
            return sched
        return super().attach(sched)

    def complete_next(self):
        job = self.inflight.pop(self.choose())
        self.completions.append(job)
        sched = self.scheduler
        args, kwargs = job.args
        self.calls.append((job.task.fullname, args, kwargs))
        try:
            from redun.executors.local import set_current_job
            set_current_job(sched, job)
            result = job.task.func(*args, **kwargs)
        except Exception as error:  # noqa: BLE001
            self.done.append((job, G.canon_error(error)))
            sched.reject_job(job, error)
        else:
            self.done.append((job, "ok"))
            sched.done_job(job, result)


def clone(expr):
    """Fresh expression objects for one run.  Expression objects carry per-run bookkeeping (`call_hash`, `_upstreams`);
    redun itself re-pickles an expression before handing it to another scheduler (see `_subrun_root_task`), and so do we
    before every run on a fresh backend: a `call_hash` left over from a run on a *different* database would otherwise be
    recorded as an upstream of a new call node (FOREIGN KEY failure) — an artefact of the harness, not of the property."""
    from redun.utils import pickle_dumps, pickle_loads
    return pickle_loads(pickle_dumps(expr))


def make_ctl(seed):
    """seed: an int (seeded random completion order), "fifo" (the job submitted first completes first) or "lifo"
    (the job submitted LAST completes first: later terms of a container finish before earlier ones)"""
    if seed == "fifo":
        return RecCtl(schedule=[])
    if seed == "lifo":
        return RecCtl(schedule=[-1] * 100000)
    return RecCtl(rng=random.Random(seed))


def run_ctl(expr, seed, sched=None, ctl=None, **kw):
    """-> (canonical outcome, ctl, scheduler)"""
    if sched is None:
        expr = clone(expr)
    if ctl is None:
        ctl = make_ctl(seed)
    if sched is None:
        sched = fresh_scheduler(ctl)
    status, payload = ctl.run(sched, expr, **kw)
    return G.real_outcome(status, payload), ctl, sched


class Timeout(Exception):
    pass


@contextlib.contextmanager
def with_timeout(seconds):
    def handler(signum, frame):
        raise Timeout("free-running scheduler did not finish in %ss" % seconds)

    old = signal.signal(signal.SIGALRM, handler)
    signal.setitimer(signal.ITIMER_REAL, seconds)
    try:
        yield
    finally:
        signal.setitimer(signal.ITIMER_REAL, 0)
        signal.signal(signal.SIGALRM, old)


def run_free(expr, sched=None, timeout=60, **kw):
    """free-running run on real executors -> canonical outcome"""
    if sched is None:
        sched = free_scheduler()
        expr = clone(expr)
    try:
        with with_timeout(timeout):
            try:
                return G.real_outcome("ok", sched.run(expr, **kw)), sched
            except Timeout:
                raise
            except Exception as e:  # noqa: BLE001
                return G.real_outcome("err", e), sched
    except Timeout as t:
        return ("hang", str(t)), sched


def contains_form(sx, head):
    return ("(" + head + " ") in sx or ("(" + head + ")") in sx


def is_trivial(sx):
    return not any(contains_form(sx, h) for h in ("call", "op", "cond", "seq", "catch", "catchall", "map", "tags", "fork",
                                                  "join", "subrun"))
