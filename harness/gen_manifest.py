"""Regenerate MANIFEST.json from the property modules present under harness/props."""
import importlib
import json
import os
import sys

HERE = os.path.dirname(os.path.abspath(__file__))
VERIF = os.path.dirname(HERE)
sys.path.insert(0, HERE)

props = [json.loads(l) for l in open(os.path.join(VERIF, "properties.jsonl"))]
NA_FILE = os.path.join(HERE, "not_applicable.json")
na_reasons = json.load(open(NA_FILE)) if os.path.exists(NA_FILE) else {}

checks, na = [], []
for p in props:
    pid = p["id"]
    path = os.path.join(HERE, "props", pid + ".py")
    if not os.path.exists(path) or pid in na_reasons:
        na.append({"property_id": pid, "reason": na_reasons.get(pid, "check not built yet (work in progress; see DESIGN.md section 4 for the plan)")})
        continue
    m = importlib.import_module("props." + pid)
    claimed = json.load(open(os.path.join(HERE, "claimed.json")))
    if not getattr(m, "READY", False) or pid not in claimed:
        na.append({"property_id": pid, "reason": "check under construction (module present but not yet validated; see DESIGN.md section 4)"})
        continue
    checks.append({
        "property_id": pid,
        "quick_cmd": f"./check {pid} --tier quick",
        "thorough_cmd": f"./check {pid} --tier thorough",
        "evidence_file": f"evidence/{pid}.json",
        "replay_cmd_template": f"./check {pid} --replay {{path}}",
        "engine": "lean4-proof+correspondence",
        "level_claimed": {
            "category": "proof",
            "text": getattr(m, "LEVEL_TEXT", "Lean 4 theorems about a hand-written executable model, tied to the code by a differential correspondence check and a property oracle on the real code."),
            "design_ref": f"DESIGN.md section 4, {pid}",
        },
        "level_note": getattr(m, "LEVEL_NOTE", "; ".join(getattr(m, "TRUSTED", []))),
        "technique": getattr(m, "TECHNIQUE", "Lean 4 proof over an executable model + model/implementation correspondence check"),
    })

manifest = {
    "version": 1,
    "setup_cmd": "./check --setup",
    "hooks": {
        "guard": "REDUN_VERIF",
        "enable": "no source hooks: the harness drives /repo in-process (export REDUN_VERIF=1 is set by ./check but read by nothing in /repo)",
        "baseline_off_cmd": "cd /repo && /venv/bin/python -m pytest -ra -q -p no:cacheprovider --timeout=900 --continue-on-collection-errors",
        "source_commits": [],
        "add_only": True,
    },
    "engines": [{
        "name": "lean4-proof+correspondence",
        "path": "check",
        "serves_properties": [c["property_id"] for c in checks],
        "kind_free_text": "Lean 4 (lake project lean/RedunModel: Model/, Lemmas/, Props/, Driver/) + Python harness (harness/) that builds the proofs, audits axioms, and runs the model driver and the real redun code on the same generated cases",
    }],
    "checks": checks,
    "not_applicable": na,
    "notes": "Every check: (1) lake build of the property's theorem modules, (2) source audit + #print axioms, (3) corpus + generated correspondence cases model vs /repo, (4) property oracle on /repo. See DESIGN.md.",
}
json.dump(manifest, open(os.path.join(VERIF, "MANIFEST.json"), "w"), indent=1)
print(len(checks), "checks;", len(na), "not claimed")
