"""Regenerate the generated sections of DESIGN.md (§11 fixes/findings, §12 status table)."""
import importlib, json, os, re, sys
HERE = os.path.dirname(os.path.abspath(__file__)); VERIF = os.path.dirname(HERE)
sys.path.insert(0, HERE)
props = [json.loads(l) for l in open(os.path.join(VERIF, "properties.jsonl"))]
claimed = set(json.load(open(os.path.join(HERE, "claimed.json"))))
kf = json.load(open(os.path.join(VERIF, "known_findings.json")))["findings"]
out = ["## 11. Defects found (generated from known_findings.json)\n",
       "Every entry was reproduced on the real code by the check named in its signature prefix. `fixed` = repaired by the `fix:` commit(s) "
       "named (one defect per commit, existing test suite unchanged and passing); `known` = recorded, not repaired (reason in the property's LEVEL_NOTE).\n",
       "| property | status | commit | signature | what fails |", "|---|---|---|---|---|"]
for f in kf:
    out.append("| %s | %s | %s | `%s` | %s |" % (f["property"], f["status"], f.get("commit") or "", f["signature"], f["what"].replace("|", "\\|")))
out += ["", "## 12. Per-property status (generated)\n", "| id | claimed | theorems | technique / what is proved |", "|---|---|---|---|"]
for p in props:
    pid = p["id"]
    try:
        m = importlib.import_module("props." + pid)
        out.append("| %s | %s | %d | %s |" % (pid, "yes" if pid in claimed else "no", len(getattr(m, "THEOREMS", [])),
                                            getattr(m, "LEVEL_TEXT", "").replace("|", "\\|").replace("\n", " ")))
    except Exception as e:  # noqa: BLE001
        out.append("| %s | no | 0 | (module not present yet) |" % pid)
import glob
out += ["", "## 13. Seeded breaking changes and which check catches them (generated from seeded/*/meta.json)\n",
        "Each change was written by a fresh sub-agent that saw only the property text and a scratch worktree (nothing from /verif), then "
        "re-confirmed by the lead in a fresh worktree (`harness/seeded_tool.py confirm`: demo passes without / fails with the patch, every "
        "BASELINE stable_pass test still passes). `eval` = `REDUN_REPO=<worktree with patch> ./check <id> --tier quick`.\n",
        "| seeded | property | needs | check exit | first violation signatures |", "|---|---|---|---|---|"]
for mf in sorted(glob.glob(os.path.join(VERIF, "seeded", "*", "meta.json"))):
    m = json.load(open(mf))
    r = (m.get("check_results") or {}).get("quick") or {}
    sigs = "; ".join(sorted({(v.get("signature") or v.get("kind") or "?") for v in r.get("violations", [])}))
    out.append("| %s | %s | %s | %s | %s |" % (m.get("name"), m.get("property"), (m.get("needs") or "see NOTES.md").replace("|", "\\|")[:160],
                                             r.get("exit", "not run"), sigs))
text = "\n".join(out) + "\n"
path = os.path.join(VERIF, "DESIGN.md")
s = open(path).read()
beg, end = "<!-- GENERATED-BEGIN -->", "<!-- GENERATED-END -->"
if beg in s:
    s = s[: s.index(beg) + len(beg)] + "\n" + text + s[s.index(end):]
else:
    s = s.rstrip("\n") + "\n\n" + beg + "\n" + text + end + "\n"
open(path, "w").write(s)
print("DESIGN.md updated")
