"""Lead tool for seeded breaking changes.

  seeded_tool.py confirm <ID> [name]   take $SEED_SRC/<ID>/{patch.diff,demo.py|test_demo.py,NOTES.md} (SEED_SRC defaults to /tmp/mut; round 2 used
                                 /tmp/mut2 and names <ID>b), confirm in a scratch worktree of /repo HEAD:
                                 patch applies, demo fails with it / passes without, full test suite keeps every BASELINE stable_pass
                                 test passing; then store it as /verif/seeded/<name or ID>/ (patch.diff, demo, NOTES.md, meta.json)
  seeded_tool.py eval <name> [tier]    run ./check <property> against a scratch worktree with the patch applied; update meta.json
"""
import json, os, shutil, subprocess, sys, time, xml.etree.ElementTree as ET

VERIF = os.path.dirname(os.path.dirname(os.path.abspath(__file__)))


def sh(cmd, **kw):
    return subprocess.run(cmd, shell=True, capture_output=True, text=True, **kw)


def worktree(tag):
    d = f"/tmp/seedwt-{tag}-{os.getpid()}"
    sh(f"git -C /repo worktree remove --force {d}")
    r = sh(f"git -C /repo worktree add -q {d} HEAD")
    assert r.returncode == 0, r.stderr
    return d


def rm_worktree(d):
    sh(f"git -C /repo worktree remove --force {d}")
    shutil.rmtree(d, ignore_errors=True)


def run_demo(wt, demo):
    if os.path.basename(demo).startswith("test_"):
        cmd = f"cd {wt} && PYTHONPATH={wt} timeout 600 /venv/bin/python -m pytest -q -p no:cacheprovider -x {demo}"
    else:
        cmd = f"cd {wt} && PYTHONPATH={wt} timeout 600 /venv/bin/python {demo}"
    r = sh(cmd)
    return r.returncode, (r.stdout + r.stderr)[-600:]


def suite(wt, junit):
    sh(f"cd {wt} && PYTHONPATH={wt} /venv/bin/python -m pytest -q -p no:cacheprovider --timeout=900 --continue-on-collection-errors --junitxml={junit}")
    b = json.load(open("/root/.vp/BASELINE.json"))
    res = {}
    for tc in ET.parse(junit).getroot().iter("testcase"):
        st = "pass"
        for ch in tc:
            if ch.tag in ("failure", "error"):
                st = "fail"
            elif ch.tag == "skipped":
                st = "skip"
        res[tc.get("classname") + "::" + tc.get("name")] = st
    broken = [s for s in b["stable_pass"] if res.get(s) != "pass"]
    # timing-sensitive executor tests flake under machine load: re-run what failed, in isolation
    still = []
    for t in broken:
        cls, name = t.split("::", 1)
        parts = cls.split(".")
        node = None
        for k in range(len(parts), 0, -1):
            f = os.path.join(wt, *parts[:k]) + ".py"
            if os.path.exists(f):
                node = "/".join(parts[:k]) + ".py" + "".join("::" + x for x in parts[k:]) + "::" + name
                break
        ok = False
        if node:
            for _ in range(4):
                time.sleep(3)
                try:
                    r = sh(f"cd {wt} && PYTHONPATH={wt} timeout -k 5 300 /venv/bin/python -m pytest -q -p no:cacheprovider --timeout=120 '{node}'")
                except Exception:  # noqa: BLE001
                    continue
                if r.returncode == 0:
                    ok = True
                    break
        if not ok:
            still.append(t)
    return still


def needs_from_notes(path):
    """the 'what it needs to manifest' section of the author's NOTES.md"""
    try:
        lines = open(path).read().splitlines()
    except OSError:
        return ""
    out, on = [], False
    for l in lines:
        if l.startswith("#") or (l.startswith("**") and l.rstrip().endswith("**")):
            if on:
                break
            on = "need" in l.lower() or "manifest" in l.lower()
            continue
        if on:
            out.append(l.strip())
    return " ".join(x for x in out if x)[:900]


def confirm(pid, name=None):
    name = name or pid
    src = os.path.join(os.environ.get("SEED_SRC", "/tmp/mut"), pid)
    demo = next(os.path.join(src, f) for f in ("demo.py", "test_demo.py") if os.path.exists(os.path.join(src, f)))
    wt = worktree("c" + name)
    meta = {"property": pid, "name": name, "repo_head": sh("git -C /repo rev-parse --short HEAD").stdout.strip(), "confirmed_at": time.strftime("%F %T")}
    try:
        rc0, out0 = run_demo(wt, demo)
        meta["demo_without_patch"] = {"exit": rc0, "tail": out0[-200:]}
        r = sh(f"git -C {wt} apply {src}/patch.diff")
        meta["patch_applies"] = r.returncode == 0
        if r.returncode != 0:
            meta["apply_error"] = r.stderr[-300:]
            print(json.dumps(meta, indent=1)); return False
        rc1, out1 = run_demo(wt, demo)
        meta["demo_with_patch"] = {"exit": rc1, "tail": out1[-300:]}
        broken = suite(wt, f"/tmp/seed-junit-{name}.xml")
        meta["stable_tests_broken_by_patch"] = broken[:10]
        ok = rc0 == 0 and rc1 != 0 and not broken
        meta["confirmed"] = ok
    finally:
        rm_worktree(wt)
    if ok:
        dst = os.path.join(VERIF, "seeded", name)
        os.makedirs(dst, exist_ok=True)
        shutil.copy(f"{src}/patch.diff", dst)
        shutil.copy(demo, dst)
        if os.path.exists(f"{src}/NOTES.md"):
            shutil.copy(f"{src}/NOTES.md", dst)
        meta["breaks_property"] = pid
        meta["needs"] = needs_from_notes(f"{src}/NOTES.md")
        meta["ran"] = ["demo without patch (exit 0)", "demo with patch (exit != 0)", "full pytest suite with patch: every BASELINE stable_pass test passes"]
        json.dump(meta, open(os.path.join(dst, "meta.json"), "w"), indent=1)
    print(json.dumps(meta, indent=1))
    return ok


def evaluate(name, tier="quick"):
    dst = os.path.join(VERIF, "seeded", name)
    meta = json.load(open(os.path.join(dst, "meta.json")))
    pid = meta["property"]
    wt = worktree("e" + name)
    try:
        r = sh(f"git -C {wt} apply {dst}/patch.diff")
        assert r.returncode == 0, r.stderr
        env = dict(os.environ, REDUN_REPO=wt, VERIF_SEED="0")
        t0 = time.time()
        r = subprocess.run([os.path.join(VERIF, "check"), pid, "--tier", tier], capture_output=True, text=True, env=env, cwd=VERIF)
        lines = [l for l in r.stdout.splitlines() if l.startswith("VIOLATION") or l.startswith("[" + pid)]
        replays = []
        for l in lines:
            if "replay=" in l:
                pth = l.split("replay=")[1].split()[0]
                try:
                    d = json.load(open(os.path.join(VERIF, pth)))
                    replays.append({"line": l, "signature": d.get("signature"), "kind": d.get("kind"), "what": d.get("what"),
                                    "theorem_or_correspondence": (d.get("theorem_or_correspondence") or [])[:3]})
                except Exception as e:  # noqa: BLE001
                    replays.append({"line": l, "error": str(e)})
        meta.setdefault("check_results", {})[tier] = {"exit": r.returncode, "wall_s": round(time.time() - t0, 1), "violations": replays[:4],
                                                      "verif_commit": sh(f"git -C {VERIF} rev-parse --short HEAD").stdout.strip(),
                                                      "how": "scratch worktree of /repo HEAD with patch applied, REDUN_REPO=<worktree> ./check %s --tier %s" % (pid, tier)}
        json.dump(meta, open(os.path.join(dst, "meta.json"), "w"), indent=1)
        print(name, pid, tier, "exit", r.returncode, "|", "; ".join((v.get("signature") or v.get("line", ""))[:80] for v in replays[:3]))
    finally:
        rm_worktree(wt)
    # evidence/replays written by this run belong to the patched tree: restore evidence from git
    sh(f"git -C {VERIF} checkout -- evidence/{pid}.json lean/RedunModel/Generated")


if __name__ == "__main__":
    if sys.argv[1] == "confirm":
        sys.exit(0 if confirm(*sys.argv[2:]) else 1)
    elif sys.argv[1] == "eval":
        evaluate(*sys.argv[2:])
