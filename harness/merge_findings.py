"""lead tool: merge harness/findings_proposed/<pid>.json into known_findings.json (idempotent by signature).
usage: merge_findings.py C24 [commit-sha-for-fixed-entries]"""
import json, sys
pid = sys.argv[1]
sha = sys.argv[2] if len(sys.argv) > 2 else None
kf = json.load(open('known_findings.json'))
have = {(f['property'], f['signature']) for f in kf['findings']}
for e in json.load(open(f'harness/findings_proposed/{pid}.json')):
    if (e['property'], e['signature']) in have:
        continue
    if e.get('status') == 'fixed' and sha and 'commit' not in e:
        e['commit'] = sha
    kf['findings'].append(e)
    print('added', e['property'], e['signature'], e['status'])
json.dump(kf, open('known_findings.json', 'w'), indent=1)
