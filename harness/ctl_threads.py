"""
Deterministic thread scheduler for the concurrency properties (C10, C11).

Built on `sys.monitoring` (Python 3.12) LINE events with a tool id that is not DEBUGGER_ID, so
`is_debugger_active()`-style checks in the code under test are unaffected and no source edit is
needed.  Every *controlled* thread blocks at each LINE event of a *target* code object until the
controller grants it one step; a step runs the thread from that line to its next LINE event in a
target code object (or to the end of the thread).  Calls into non-target code are part of the
step of the calling line, i.e. atomic.  Exactly one controlled thread runs at any time, so a
schedule (list of thread names) determines the execution completely.

Controlled threads are (a) threads created through `Controller.spawn` and (b) every
`threading.Thread` started by a controlled thread while the controller is active (the monitor
threads created by the code under test); they are named `<role><k>` where role comes from the
thread's target function (`role_of`) and k counts the threads of that role in creation order.

Blocking operations must never be entered inside a step.  The controller therefore knows which
lines can block (`blockers`: regex on the stripped source line + predicate on the stopped frame
that says whether the line would block *now*); `enabled(name)` is False for a thread stopped at
such a line.  `CtlLock` is a lock whose owner is visible to those predicates; `CtlEvent` is an
Event whose `wait()` is a scheduling point of its own (pseudo line "<event-wait>").

Optional instruction-level split points (`split`: {code: [bytecode offsets]}) add a scheduling
point in the middle of a line (used to place a pre-emption between the read and the write of an
unlocked `x -= n`).
"""
from __future__ import annotations

import linecache
import re
import sys
import threading
import time

TOOL_ID = 3           # sys.monitoring: 0 debugger, 1 coverage, 2 profiler, 5 optimizer; 3 and 4 are free
_mon = sys.monitoring


THREAD_EXIT = "<thread-exit>"


class Stuck(Exception):
    """A granted step did not reach its next scheduling point (blocked inside a step)."""


class _TS:
    __slots__ = ("name", "thread", "status", "code", "line", "frame", "pseudo", "steps")

    def __init__(self, name, thread):
        self.name = name
        self.thread = thread
        self.status = "running"     # running | at_line | done
        self.code = None
        self.line = None
        self.frame = None
        self.pseudo = None          # pseudo label when stopped at a non-line scheduling point
        self.steps = 0


class Controller:
    def __init__(self, targets, role_of=None, blockers=(), split=None, timeout=30.0, exit_roles=()):
        """targets: iterable of functions / code objects / (function, set_of_line_numbers).
        role_of: function name of a thread target -> role letter (default 'T').
        blockers: iterable of (compiled regex | str, predicate(frame, stopped_thread) -> bool)."""
        self._filters = {}
        for t in targets:
            filt = None
            if isinstance(t, tuple):
                t, filt = t
                filt = set(filt)
            code = getattr(t, "__code__", t)
            self._filters[code] = filt
        self._split = {getattr(c, "__code__", c): set(offs) for c, offs in (split or {}).items()}
        self._role_of = role_of or (lambda fname: "T")
        self._blockers = [(re.compile(r) if isinstance(r, str) else r, p) for r, p in blockers]
        self._cv = threading.Condition()
        self._by_thread = {}
        self._threads = {}          # name -> _TS (insertion = creation order)
        self._role_count = {}
        self._grant = None
        self._free = False
        self._active = False
        self._timeout = timeout
        # roles whose threads get one more scheduling point "<thread-exit>" after their target function has
        # returned: the thread is then still alive (Thread.is_alive() is True until the teardown is over)
        self._exit_roles = set(exit_roles)
        self._orig_start = None
        self.log = []               # (thread name, label) of every executed step

    # ------------------------------------------------------------------ install / remove
    def __enter__(self):
        _mon.use_tool_id(TOOL_ID, "verif-ctl-threads")
        _mon.register_callback(TOOL_ID, _mon.events.LINE, self._on_line)
        if self._split:
            _mon.register_callback(TOOL_ID, _mon.events.INSTRUCTION, self._on_instr)
        for code in self._filters:
            ev = _mon.events.LINE
            if code in self._split:
                ev |= _mon.events.INSTRUCTION
            _mon.set_local_events(TOOL_ID, code, ev)
        ctl = self
        self._orig_start = threading.Thread.start

        def start(t):
            if ctl._active and not ctl._free and threading.current_thread() in ctl._by_thread:
                ctl._register(t)
            return ctl._orig_start(t)

        threading.Thread.start = start
        self._orig_join = threading.Thread.join

        def join(t, timeout=None):
            # joining a thread that is only waiting for its teardown step lets that teardown happen
            ts = ctl._by_thread.get(t)
            if ts is not None and not ctl._free and threading.current_thread() in ctl._by_thread:
                with ctl._cv:
                    if ts.status == "at_line" and ts.pseudo == THREAD_EXIT:
                        ts.status = "running"
                        ts.pseudo = "<woken>"
                        ctl._cv.notify_all()
            return ctl._orig_join(t, timeout)

        threading.Thread.join = join
        self._active = True
        return self

    def __exit__(self, *exc):
        self.release()
        threading.Thread.start = self._orig_start
        threading.Thread.join = self._orig_join
        for code in self._filters:
            _mon.set_local_events(TOOL_ID, code, 0)
        _mon.register_callback(TOOL_ID, _mon.events.LINE, None)
        if self._split:
            _mon.register_callback(TOOL_ID, _mon.events.INSTRUCTION, None)
        _mon.free_tool_id(TOOL_ID)
        self._active = False
        return False

    def release(self):
        """Let every controlled thread run freely from now on (end of the controlled schedule)."""
        with self._cv:
            self._free = True
            self._cv.notify_all()

    # ------------------------------------------------------------------ thread registration
    def _register(self, t, name=None):
        role = None
        with self._cv:
            if name is None:
                tgt = getattr(t, "_target", None)
                role = self._role_of(getattr(tgt, "__name__", "") if tgt is not None else "")
                k = self._role_count.get(role, 0)
                self._role_count[role] = k + 1
                name = f"{role}{k}"
            ts = _TS(name, t)
            self._by_thread[t] = ts
            self._threads[name] = ts
        orig_run = t.run
        ctl = self

        def run():
            try:
                orig_run()
                if role in ctl._exit_roles and ts.pseudo != "<woken>":      # (a waiter released by CtlEvent.set is being joined)
                    ctl.pseudo_point(THREAD_EXIT)
            finally:
                with ctl._cv:
                    ts.status = "done"
                    ts.frame = None
                    ctl._cv.notify_all()

        t.run = run
        return ts

    def spawn(self, name, fn):
        """Create a controlled thread running fn(); it stops at its first scheduling point."""
        t = threading.Thread(target=fn, daemon=True, name="ctl-" + name)
        self._register(t, name)
        self._orig_start(t)
        self._wait_settled()
        return name

    # ------------------------------------------------------------------ callbacks (run in the controlled threads)
    def _park(self, ts, code, line, pseudo):
        with self._cv:
            ts.status = "at_line"
            ts.code = code
            ts.line = line
            ts.pseudo = pseudo
            ts.frame = sys._getframe(2)
            self._cv.notify_all()
            while self._grant is not ts and not self._free and ts.pseudo != "<woken>":
                self._cv.wait()
            if self._grant is ts:
                self._grant = None
            ts.status = "running"
            ts.frame = None
            ts.steps += 1

    def _on_line(self, code, line):
        if self._free:
            return
        ts = self._by_thread.get(threading.current_thread())
        if ts is None:
            return
        filt = self._filters.get(code)
        if filt is not None and line not in filt:
            return
        self._park(ts, code, line, None)

    def _on_instr(self, code, offset):
        if self._free:
            return
        offs = self._split.get(code)
        if not offs or offset not in offs:
            return
        ts = self._by_thread.get(threading.current_thread())
        if ts is None:
            return
        self._park(ts, code, None, f"<split@{offset}>")

    def pseudo_point(self, label):
        """Scheduling point requested by a harness object (CtlEvent.wait) from a controlled thread."""
        if self._free:
            return
        ts = self._by_thread.get(threading.current_thread())
        if ts is None:
            return
        self._park(ts, None, None, label)

    # ------------------------------------------------------------------ controller side
    def _wait_settled(self):
        deadline = time.time() + self._timeout
        with self._cv:
            while True:
                running = [ts for ts in self._threads.values() if ts.status == "running"]
                if not running:
                    break
                left = deadline - time.time()
                if left <= 0:
                    raise Stuck("thread(s) %s did not reach a scheduling point" % [ts.name for ts in running])
                self._cv.wait(left)
            done = [ts for ts in self._threads.values() if ts.status == "done" and ts.thread.is_alive()]
        for ts in done:     # make Thread.is_alive() of a finished thread False before the next step
            self._orig_join(ts.thread, self._timeout)
            if ts.thread.is_alive():
                raise Stuck("finished thread %s does not terminate" % ts.name)

    def names(self):
        return list(self._threads)

    def status(self, name):
        return self._threads[name].status

    def label(self, name):
        """Stripped source text of the line the thread is stopped at (None if done)."""
        ts = self._threads[name]
        if ts.status != "at_line":
            return None
        if ts.pseudo is not None:
            return ts.pseudo
        return linecache.getline(ts.code.co_filename, ts.line).strip()

    def where(self, name):
        ts = self._threads[name]
        if ts.status != "at_line":
            return None
        if ts.pseudo is not None:
            return (ts.code.co_name if ts.code else "", ts.pseudo)
        return (ts.code.co_name, ts.line)

    def enabled(self, name):
        ts = self._threads.get(name)
        if ts is None or ts.status != "at_line":
            return False
        if ts.pseudo is not None:
            return True
        text = self.label(name)
        for rx, pred in self._blockers:
            if rx.search(text) and pred(ts.frame, ts.thread):
                return False
        return True

    def step(self, name):
        """Grant one step to `name`; returns the label of the executed line."""
        ts = self._threads[name]
        if not self.enabled(name):
            raise Stuck(f"step({name}): thread is {ts.status}, label {self.label(name)!r}: not enabled")
        lab = self.label(name)
        with self._cv:
            self._grant = ts
            self._cv.notify_all()
        # the granted thread flips to 'running' itself; wait until it has done so and settled again
        deadline = time.time() + self._timeout
        with self._cv:
            while self._grant is ts:
                left = deadline - time.time()
                if left <= 0:
                    raise Stuck(f"step({name}): grant not taken")
                self._cv.wait(left)
        self._wait_settled()
        self.log.append((name, lab))
        return lab


class CtlLock:
    """Drop-in for threading.Lock whose owner is visible to the controller's blockers."""

    def __init__(self):
        self._lock = threading.Lock()
        self.owner = None

    def acquire(self, blocking=True, timeout=-1):
        ok = self._lock.acquire(blocking, timeout)
        if ok:
            self.owner = threading.current_thread()
        return ok

    def release(self):
        self.owner = None
        self._lock.release()

    def locked(self):
        return self._lock.locked()

    def held_by_other(self):
        o = self.owner
        return o is not None and o is not threading.current_thread()

    def __enter__(self):
        self.acquire()
        return self

    def __exit__(self, *a):
        self.release()


def lock_blocker(attr="_lock"):
    """Blocker for `with self.<attr>:` lines: blocked iff the CtlLock is held by another thread
    (the same line is visited again when the block is left; then the owner is the thread itself)."""
    rx = re.compile(r"^with\s+self\." + re.escape(attr) + r"\s*:")

    def pred(frame, thread):
        lk = getattr(frame.f_locals.get("self"), attr, None)
        if not isinstance(lk, CtlLock):
            return False
        o = lk.owner
        return o is not None and o is not thread

    return (rx, pred)


class CtlEvent:
    """threading.Event replacement whose wait() is a scheduling point of the calling controlled
    thread and never sleeps; set() from another thread releases nobody by itself (the waiter sees
    the flag at its next granted step) unless `wake_on_set`, in which case a parked waiter is
    let go immediately (used for the coarse arrayer in C10, where stop() joins the waiter)."""

    def __init__(self, ctl, label="<event-wait>", wake_on_set=False):
        self._ctl = ctl
        self._flag = False
        self._label = label
        self._wake = wake_on_set
        self._real = threading.Event()

    def is_set(self):
        return self._flag

    def set(self):
        self._flag = True
        self._real.set()
        if self._wake:
            ctl = self._ctl
            with ctl._cv:
                for ts in ctl._threads.values():
                    if ts.status == "at_line" and ts.pseudo == self._label:
                        ts.status = "running"      # it will not take a grant: it leaves by itself
                        ts.pseudo = "<woken>"
                ctl._cv.notify_all()

    def clear(self):
        self._flag = False
        self._real.clear()

    def wait(self, timeout=None):
        ctl = self._ctl
        if ctl._free or threading.current_thread() not in ctl._by_thread:
            return self._real.wait(timeout)
        if self._wake:
            ts = ctl._by_thread[threading.current_thread()]
            with ctl._cv:
                ts.status = "at_line"
                ts.code = None
                ts.line = None
                ts.pseudo = self._label
                ts.frame = None
                ctl._cv.notify_all()
                while ctl._grant is not ts and not ctl._free and ts.pseudo == self._label:
                    ctl._cv.wait()
                if ctl._grant is ts:
                    ctl._grant = None
                ts.status = "running"
                ts.steps += 1
        else:
            ctl.pseudo_point(self._label)
        if ctl._free and not self._flag:
            return self._real.wait(timeout)
        return self._flag
