"""Translator for C36: regenerates lean/RedunModel/Generated/Migrations.lean from
redun/backends/db/alembic/versions/*.py (every `upgrade()`) and the version table of
redun/backends/db/__init__.py (REDUN_DB_VERSIONS, REDUN_DB_MIN_VERSION, REDUN_DB_MAX_VERSION).

Each statement of an `upgrade()` becomes one guarded op:
  createTable / createIndex / addColumn / alterColumn / createFK      (structural, from their arguments)
  execSql <sha>     op.execute("...")  identified by the sha1 of the whitespace-normalised SQL text
  pyData <sha>      a Python data-migration block (session = Session(...); try: ... finally: session.close())
                    identified by the sha1 of the ast dump of the block and of the helpers it calls
guarded by the dialect test it sits under.  Anything else raises TranslateError (=> proof break)."""
from __future__ import annotations

import ast
import glob
import hashlib
import os
import re


class TranslateError(Exception):
    pass


def _fail(node, why):
    raise TranslateError("%s (line %s: %s)" % (why, getattr(node, "lineno", "?"), ast.unparse(node)[:160] if node is not None else ""))


def _q(s):
    return '"' + s.replace("\\", "\\\\").replace('"', '\\"').replace("\n", "\\n") + '"'


def _sha(text):
    return hashlib.sha1(text.encode()).hexdigest()[:12]


def norm_sql(text):
    text = re.sub(r"--[^\n]*", " ", text)
    return re.sub(r"\s+", " ", text).strip().lower()


def _const(node):
    if isinstance(node, ast.Constant):
        return node.value
    if isinstance(node, ast.List):
        return [_const(e) for e in node.elts]
    _fail(node, "expected a literal")


def _name_arg(node):
    """Index / constraint names: "x", op.f("x"), batch_op.f("x")"""
    if isinstance(node, ast.Constant) and isinstance(node.value, str):
        return node.value
    if isinstance(node, ast.Call) and isinstance(node.func, ast.Attribute) and node.func.attr == "f" and len(node.args) == 1:
        return _name_arg(node.args[0])
    _fail(node, "unsupported name expression")


def _type(node, aliases):
    """sa.String(length=40) -> "String(40)"; sa.DateTime() -> "DateTime"; alias names resolved for sqlite."""
    if isinstance(node, ast.Name) and node.id in aliases:
        return aliases[node.id]
    if isinstance(node, ast.Call):
        base = _type(node.func, aliases)
        args = [repr(_const(a)) for a in node.args if isinstance(a, ast.Constant)]
        for kw in node.keywords:
            if kw.arg in ("length",) and isinstance(kw.value, ast.Constant) and kw.value.value is not None:
                args.append(repr(kw.value.value))
            elif kw.arg in ("length", "timezone", "name"):
                continue
            else:
                _fail(node, "unsupported type argument")
        return base + ("(" + ",".join(args) + ")" if args else "")
    if isinstance(node, ast.Attribute):
        return node.attr
    if isinstance(node, ast.Name):
        return node.id
    _fail(node, "unsupported column type")


def _column(node, aliases):
    if not (isinstance(node, ast.Call) and ast.unparse(node.func) in ("sa.Column", "Column")):
        _fail(node, "expected sa.Column(...)")
    if len(node.args) < 2 or not isinstance(node.args[0], ast.Constant):
        _fail(node, "sa.Column needs a literal name and a type")
    name = node.args[0].value
    ty = _type(node.args[1], aliases)
    nullable = True
    for kw in node.keywords:
        if kw.arg == "nullable":
            nullable = bool(_const(kw.value))
        else:
            _fail(node, "unsupported Column keyword " + str(kw.arg))
    return "⟨%s, %s, %s⟩" % (_q(name), _q(ty), "true" if nullable else "false")


def _dialect_test(node):
    """op.get_bind().dialect.name ==/!= "x"  ->  (dialect, negated)"""
    if (isinstance(node, ast.Compare) and len(node.ops) == 1 and ast.unparse(node.left) == "op.get_bind().dialect.name"
            and isinstance(node.comparators[0], ast.Constant) and node.comparators[0].value in ("sqlite", "postgresql")):
        if isinstance(node.ops[0], ast.Eq):
            return node.comparators[0].value, False
        if isinstance(node.ops[0], ast.NotEq):
            return node.comparators[0].value, True
    return None


GUARDS = {("sqlite", False): ".sqlite", ("sqlite", True): ".notSqlite", ("postgresql", False): ".postgresql",
          ("postgresql", True): ".notPostgresql", None: ".any"}


class Rev:
    def __init__(self, path):
        self.path = path
        self.src = open(path).read()
        self.tree = ast.parse(self.src)
        self.funcs = {n.name: n for n in self.tree.body if isinstance(n, ast.FunctionDef)}
        self.classes = {n.name: n for n in self.tree.body if isinstance(n, ast.ClassDef)}
        self.revision = self.down = None
        for n in self.tree.body:
            if isinstance(n, ast.Assign) and len(n.targets) == 1 and isinstance(n.targets[0], ast.Name):
                if n.targets[0].id == "revision":
                    self.revision = _const(n.value)
                if n.targets[0].id == "down_revision":
                    self.down = _const(n.value)
        if not isinstance(self.revision, str) or "upgrade" not in self.funcs:
            raise TranslateError("%s: no revision / upgrade()" % path)
        self.ops = []
        self.aliases = {}
        self.block(self.funcs["upgrade"].body, None)

    def emit(self, guard, op):
        self.ops.append("⟨%s, %s⟩" % (GUARDS[guard], op))

    # -------------------------------------------------------------- statements
    def block(self, stmts, guard):
        i = 0
        while i < len(stmts):
            s = stmts[i]
            # docstring / comments
            if isinstance(s, ast.Expr) and isinstance(s.value, ast.Constant) and isinstance(s.value.value, str):
                i += 1
                continue
            if isinstance(s, ast.Pass):
                i += 1
                continue
            # `if context.is_offline_mode(): return`
            if isinstance(s, ast.If) and ast.unparse(s.test) == "context.is_offline_mode()" and not s.orelse \
                    and len(s.body) == 1 and isinstance(s.body[0], ast.Return) and s.body[0].value is None:
                i += 1
                continue
            # dialect branches
            if isinstance(s, ast.If) and _dialect_test(s.test):
                self.dialect_if(s, guard)
                i += 1
                continue
            # python data migration: session = Session(bind=op.get_bind()); try: ... finally: session.close()
            if (isinstance(s, ast.Assign) and ast.unparse(s) == "session = Session(bind=op.get_bind())" and i + 1 < len(stmts)
                    and isinstance(stmts[i + 1], ast.Try)):
                t = stmts[i + 1]
                if t.handlers or t.orelse or ast.unparse(t.finalbody[0]) != "session.close()" or len(t.finalbody) != 1:
                    _fail(t, "unsupported try block in a data migration")
                self.emit(guard, ".pyData %s" % _q(self.py_block_sha(t.body)))
                i += 2
                continue
            if isinstance(s, ast.With):
                self.batch(s, guard)
                i += 1
                continue
            if isinstance(s, ast.Expr) and isinstance(s.value, ast.Call):
                self.call(s.value, guard, None)
                i += 1
                continue
            # plain assignments inside a branch that never runs on sqlite (e.g. reading an env var for postgres SQL)
            if isinstance(s, ast.Assign) and guard in (("postgresql", False), ("sqlite", True)):
                i += 1
                continue
            _fail(s, "unsupported statement in upgrade()")

    def dialect_if(self, s, guard):
        if guard is not None:
            _fail(s, "nested dialect tests")
        d = _dialect_test(s.test)
        # `if <dialect>: x = A else: x = B`  (type alias)
        if (len(s.body) == 1 and isinstance(s.body[0], ast.Assign) and len(s.orelse) == 1 and isinstance(s.orelse[0], ast.Assign)
                and ast.unparse(s.body[0].targets[0]) == ast.unparse(s.orelse[0].targets[0])
                and isinstance(s.body[0].targets[0], ast.Name)):
            sqlite_branch = s.body[0] if (d == ("sqlite", False) or d == ("postgresql", True)) else s.orelse[0]
            if d[0] == "sqlite" or d[0] == "postgresql":
                self.aliases[s.body[0].targets[0].id] = _type(sqlite_branch.value, self.aliases)
                return
        self.block(s.body, d)
        if s.orelse:
            if len(s.orelse) == 1 and isinstance(s.orelse[0], ast.If) and _dialect_test(s.orelse[0].test):
                d2 = _dialect_test(s.orelse[0].test)
                if d2[0] == d[0] or d[1] or d2[1]:
                    _fail(s, "unsupported elif dialect combination")
                self.block(s.orelse[0].body, d2)
                if s.orelse[0].orelse:
                    _fail(s, "else after elif dialect test")
            else:
                self.block(s.orelse, (d[0], not d[1]))

    def batch(self, s, guard):
        if len(s.items) != 1:
            _fail(s, "unsupported with")
        ce = s.items[0].context_expr
        if not (isinstance(ce, ast.Call) and ast.unparse(ce.func) == "op.batch_alter_table" and isinstance(ce.args[0], ast.Constant)):
            _fail(s, "unsupported with")
        table = ce.args[0].value
        var = ast.unparse(s.items[0].optional_vars)
        for st in s.body:
            if not (isinstance(st, ast.Expr) and isinstance(st.value, ast.Call) and isinstance(st.value.func, ast.Attribute)
                    and ast.unparse(st.value.func.value) == var):
                _fail(st, "unsupported statement in batch_alter_table")
            self.call(st.value, guard, table)

    def call(self, c, guard, batch_table):
        f = c.func
        if not isinstance(f, ast.Attribute):
            _fail(c, "unsupported call")
        kws = {kw.arg: kw.value for kw in c.keywords}
        args = list(c.args)
        if batch_table is not None and f.attr in ("create_index",):
            args = [args[0], ast.Constant(batch_table)] + args[1:]
        elif batch_table is not None and f.attr in ("add_column", "alter_column"):
            args = [ast.Constant(batch_table)] + args
        elif batch_table is not None and f.attr == "create_foreign_key":
            args = [args[0], ast.Constant(batch_table)] + args[1:]
        elif batch_table is None and ast.unparse(f.value) != "op":
            _fail(c, "unsupported call target")
        a = f.attr
        if a == "create_table":
            name = _const(args[0])
            cols, pk, fks = [], [], []
            for x in args[1:]:
                fn = ast.unparse(x.func) if isinstance(x, ast.Call) else ""
                if fn in ("sa.Column", "Column"):
                    cols.append(_column(x, self.aliases))
                elif fn == "sa.PrimaryKeyConstraint":
                    pk = [_const(e) for e in x.args]
                elif fn == "sa.ForeignKeyConstraint":
                    fks.append("(%s, %s)" % (self.strs(_const(x.args[0])), self.strs(_const(x.args[1]))))
                else:
                    _fail(x, "unsupported create_table element")
            if kws:
                _fail(c, "unsupported create_table keyword")
            self.emit(guard, ".createTable %s [%s] %s [%s]" % (_q(name), ", ".join(cols), self.strs(pk), ", ".join(fks)))
        elif a == "create_index":
            name, table, cols = _name_arg(args[0]), _const(args[1]), _const(args[2])
            unique = bool(_const(kws["unique"])) if "unique" in kws else False
            for k in kws:
                if k not in ("unique", "postgresql_ops", "postgresql_where", "sqlite_where"):
                    _fail(c, "unsupported create_index keyword " + k)
            partial = "sqlite_where" in kws
            self.emit(guard, ".createIndex %s %s %s %s %s" % (_q(name), _q(table), self.strs(cols), "true" if unique else "false",
                                                               "true" if partial else "false"))
        elif a == "add_column":
            table = _const(args[0])
            self.emit(guard, ".addColumn %s %s" % (_q(table), _column(args[1], self.aliases)))
        elif a == "alter_column":
            table, col = _const(args[0]), _const(args[1])
            newty = "none"
            nullable = "none"
            for k, v in kws.items():
                if k == "existing_type":
                    continue
                elif k == "type_":
                    newty = "(some %s)" % _q(_type(v, self.aliases))
                elif k == "nullable":
                    nullable = "(some %s)" % ("true" if _const(v) else "false")
                else:
                    _fail(c, "unsupported alter_column keyword " + k)
            self.emit(guard, ".alterColumn %s %s %s %s" % (_q(table), _q(col), newty, nullable))
        elif a == "create_foreign_key":
            name, table, ref = _name_arg(args[0]), _const(args[1]), _const(args[2])
            lc, rc = _const(args[3]), _const(args[4])
            for k in kws:
                if k not in ("deferrable", "initially"):
                    _fail(c, "unsupported create_foreign_key keyword " + k)
            self.emit(guard, ".createFK %s %s %s %s %s" % (_q(name), _q(table), _q(ref), self.strs(lc), self.strs(rc)))
        elif a == "execute" and batch_table is None:
            if len(args) != 1 or kws:
                _fail(c, "unsupported op.execute form")
            x = args[0]
            if isinstance(x, ast.Constant) and isinstance(x.value, str):
                text = x.value
            elif isinstance(x, ast.JoinedStr):
                # f-string: only allowed under a non-sqlite guard (its text depends on the environment)
                if guard not in (("postgresql", False), ("sqlite", True)):
                    _fail(c, "f-string SQL that would run on sqlite")
                text = ast.unparse(x)
            else:
                _fail(c, "unsupported op.execute argument")
            self.emit(guard, ".execSql %s" % _q(_sha(norm_sql(text))))
        else:
            _fail(c, "unsupported operation " + a)

    @staticmethod
    def strs(xs):
        return "[" + ", ".join(_q(x) for x in xs) + "]"

    def py_block_sha(self, stmts):
        """sha of the block and of every module-level helper function / ORM class it (transitively) names"""
        seen, todo, parts = set(), list(stmts), []
        while todo:
            n = todo.pop(0)
            parts.append(ast.dump(n))
            for sub in ast.walk(n):
                if isinstance(sub, ast.Name) and sub.id not in seen:
                    if sub.id in self.funcs and sub.id not in ("upgrade", "downgrade"):
                        seen.add(sub.id)
                        todo.append(self.funcs[sub.id])
                    elif sub.id in self.classes:
                        seen.add(sub.id)
                        todo.append(self.classes[sub.id])
        return _sha("\n".join(parts))


def _versions(ipath):
    tree = ast.parse(open(ipath).read())
    out = {}
    for n in tree.body:
        if isinstance(n, ast.Assign) and len(n.targets) == 1 and isinstance(n.targets[0], ast.Name):
            name = n.targets[0].id
            if name == "REDUN_DB_VERSIONS":
                vs = []
                if not isinstance(n.value, ast.List):
                    _fail(n, "REDUN_DB_VERSIONS is not a list literal")
                for e in n.value.elts:
                    if not (isinstance(e, ast.Call) and ast.unparse(e.func) == "DBVersionInfo" and len(e.args) == 4):
                        _fail(e, "unsupported REDUN_DB_VERSIONS entry")
                    vs.append((_const(e.args[0]), _const(e.args[1]), _const(e.args[2])))
                out[name] = vs
            elif name in ("REDUN_DB_MIN_VERSION", "REDUN_DB_MAX_VERSION"):
                e = n.value
                if not (isinstance(e, ast.Call) and ast.unparse(e.func) == "DBVersionInfo" and len(e.args) == 4):
                    _fail(e, "unsupported version constant")
                out[name] = (_const(e.args[1]), _const(e.args[2]))
    for k in ("REDUN_DB_VERSIONS", "REDUN_DB_MIN_VERSION", "REDUN_DB_MAX_VERSION"):
        if k not in out:
            raise TranslateError(k + " not found")
    return out


def translate(repo: str) -> str:
    vdir = os.path.join(repo, "redun/backends/db/alembic/versions")
    files = sorted(glob.glob(os.path.join(vdir, "*.py")))
    if not files:
        raise TranslateError("no migration files in " + vdir)
    revs = [Rev(f) for f in files]
    vers = _versions(os.path.join(repo, "redun/backends/db/__init__.py"))
    L = []
    L.append("/- GENERATED by harness/translate_migrations.py from redun/backends/db/alembic/versions/*.py and the version")
    L.append("   table of redun/backends/db/__init__.py.  Do not edit: regenerated on every run of ./check C36. -/")
    L.append("import RedunModel.Model.MigrateOps")
    L.append("namespace RedunModel.Generated.Migrations")
    L.append("open RedunModel.MigrateOps")
    L.append("")
    L.append("/-- one entry per file in alembic/versions (sorted by file name): revision, down_revision, upgrade() ops -/")
    L.append("def revisions : List Rev := [")
    for i, r in enumerate(revs):
        L.append("  -- %s" % os.path.basename(r.path))
        L.append("  ⟨%s, %s, [" % (_q(r.revision), "none" if r.down is None else "some " + _q(r.down)))
        for j, o in enumerate(r.ops):
            L.append("    %s%s" % (o, "," if j + 1 < len(r.ops) else ""))
        L.append("  ]⟩%s" % ("," if i + 1 < len(revs) else ""))
    L.append("]")
    L.append("")
    L.append("/-- REDUN_DB_VERSIONS: (migration id, major, minor), oldest first -/")
    L.append("def dbVersions : List (String × Nat × Nat) := [%s]" % ", ".join(
        "(%s, %d, %d)" % (_q(m), a, b) for m, a, b in vers["REDUN_DB_VERSIONS"]))
    L.append("def minVersion : Nat × Nat := (%d, %d)" % vers["REDUN_DB_MIN_VERSION"])
    L.append("def maxVersion : Nat × Nat := (%d, %d)" % vers["REDUN_DB_MAX_VERSION"])
    L.append("")
    L.append("end RedunModel.Generated.Migrations")
    return "\n".join(L) + "\n"


def generate(ctx):
    import core
    out = os.path.join(core.LEAN_DIR, "RedunModel", "Generated", "Migrations.lean")
    try:
        text = translate(core.REPO)
    except (TranslateError, SyntaxError, OSError, IndexError, AttributeError, KeyError) as e:
        ctx.proof_breaks.append(dict(theorem="translator harness/translate_migrations.py (Generated/Migrations.lean)",
                                     detail="%s: %s" % (type(e).__name__, e)))
        ctx.note("migration translator failed: %s" % e)
        return
    old = open(out).read() if os.path.exists(out) else None
    if old != text:
        os.makedirs(os.path.dirname(out), exist_ok=True)
        with open(out, "w") as f:
            f.write(text)


if __name__ == "__main__":
    import sys
    print(translate(sys.argv[1] if len(sys.argv) > 1 else "/repo"))
