"""
Controlled redun Scheduler: the executor completion order is chosen by the harness, everything runs on the
scheduler thread, so a run is a deterministic function of (program, schedule).

    ctl = Ctl(schedule=[...] or rng=random.Random(..))      # which in-flight job completes next
    sched = make_scheduler(ctl, limits={"r": 1})
    result = ctl.run(sched, expr)                            # returns ("ok", value) | ("err", exc) | ("hang", info)

How: `scheduler.events_queue` is replaced by `CtlQueue`.  Its `get()` pops the next queued event; when the
queue is empty it asks the controller to complete one in-flight job (the task function is then called
in-line, and `done_job`/`reject_job` enqueue the completion event, exactly what an executor thread does).
If nothing is queued and nothing is in flight while the workflow promise is pending, the real scheduler would
block forever in `events_queue.get`: that is reported as a hang (`Hang` exception -> ("hang", ..)).
No change to /repo is needed.
"""
from __future__ import annotations

import collections
import queue

from redun import Scheduler
from redun.config import Config
from redun.executors.base import Executor


class Hang(Exception):
    pass


class CtlQueue:
    def __init__(self, ctl: "Ctl"):
        self.q = collections.deque()
        self.ctl = ctl

    def put(self, item, *a, **k):
        self.q.append(item)
        self.ctl.on_put(item)

    def empty(self):
        return not self.q

    def qsize(self):
        return len(self.q)

    def get(self, block=True, timeout=None):
        ctl = self.ctl
        if ctl.after_event and ctl._ran_event:
            ctl._ran_event = False
            ctl.after_event(ctl)
        if not self.q:
            # scheduler is idle: let one in-flight job complete
            if not ctl.inflight:
                raise Hang("no queued event and no in-flight job while the workflow promise is pending")
            ctl.complete_next()
            if not self.q:
                raise Hang("completion produced no event")
        ctl._ran_event = True
        ctl.n_events += 1
        if ctl.max_events and ctl.n_events > ctl.max_events:
            raise Hang("event budget exceeded")
        return self.q.popleft()


class CtlExecutor(Executor):
    """Interposed executor: records submissions, runs nothing until the controller says so."""

    def __init__(self, name, ctl: "Ctl", is_async=False):
        super().__init__(name)
        self.ctl = ctl
        self._async = is_async

    def supports_async(self):
        return self._async

    def submit(self, job):
        self.ctl.on_submit(job, self.name)

    def submit_script(self, job):
        self.ctl.on_submit(job, self.name)


class Ctl:
    def __init__(self, schedule=None, rng=None, after_event=None, max_events=200000, eager_policy="fifo"):
        self.schedule = list(schedule) if schedule is not None else None   # list of indices into inflight
        self.rng = rng
        self.inflight: list = []          # jobs submitted and not yet completed (submission order)
        self.submissions: list = []       # (task fullname, eval_hash, context_hash, job) in submission order
        self.completions: list = []       # order in which jobs were completed
        self.choices: list = []           # (n_inflight, chosen index) at each decision point
        self.after_event = after_event
        self._ran_event = False
        self.n_events = 0
        self.max_events = max_events
        self.scheduler = None
        self.policy = eager_policy
        self.calls: list = []             # (task fullname, args, kwargs) for every task function actually called
        self.on_submit_hook = None

    # ---- hooks
    def on_put(self, item):
        pass

    def on_submit(self, job, executor_name):
        self.inflight.append(job)
        self.submissions.append((job.task.fullname, job.eval_hash, job.context_hash, job))
        if self.on_submit_hook:
            self.on_submit_hook(job)

    def choose(self) -> int:
        n = len(self.inflight)
        if self.schedule is not None:
            if self.schedule:
                i = self.schedule.pop(0) % n
            else:
                i = 0
        elif self.rng is not None:
            i = self.rng.randrange(n)
        else:
            i = 0
        self.choices.append((n, i))
        return i

    def complete_next(self):
        job = self.inflight.pop(self.choose())
        self.completions.append(job)
        sched = self.scheduler
        args, kwargs = job.args
        self.calls.append((job.task.fullname, args, kwargs))
        try:
            from redun.executors.local import set_current_job
            set_current_job(sched, job)
            result = job.task.func(*args, **kwargs)
        except Exception as error:  # noqa: BLE001
            sched.reject_job(job, error)
        else:
            sched.done_job(job, result)

    # ---- running
    def attach(self, sched: Scheduler):
        self.scheduler = sched
        sched.events_queue = CtlQueue(self)
        for name in list(sched.executors):
            sched.executors[name] = CtlExecutor(name, self, is_async=sched.executors[name].supports_async())
            sched.executors[name].set_scheduler(sched)
        return sched

    def run(self, sched: Scheduler, expr, **kw):
        """Returns (status, payload): ("ok", value) | ("err", exception) | ("hang", message) | ("dryrun", None)."""
        from redun.scheduler import DryRunResult
        self.attach(sched)
        try:
            return ("ok", sched.run(expr, **kw))
        except Hang as h:
            return ("hang", str(h))
        except DryRunResult:
            return ("dryrun", None)
        except Exception as e:  # noqa: BLE001
            return ("err", e)


def make_scheduler(ctl: Ctl | None = None, limits: dict | None = None, config_extra: dict | None = None,
                   db_uri: str = "sqlite:///:memory:", extra_executors=()) -> Scheduler:
    cfg = {"backend": {"db_uri": db_uri}, "executors.default": {"type": "local", "max_workers": "4"}}
    for name in extra_executors:
        cfg["executors." + name] = {"type": "local", "max_workers": "2"}
    if limits:
        cfg["limits"] = {k: str(v) for k, v in limits.items()}
    if config_extra:
        cfg.update(config_extra)
    sched = Scheduler(config=Config(cfg))
    sched.load()
    sched.logger.disabled = True if hasattr(sched, "logger") else False
    if ctl is not None:
        ctl.attach(sched)
    return sched


def quiet():
    import logging
    logging.getLogger("redun").setLevel(logging.CRITICAL)
