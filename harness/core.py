"""
Core of the verification harness: one run of one property check.

A property module (harness/props/Cxx.py) defines

    ID            = "C14"
    LEAN_MODULES  = ["RedunModel.Props.C14"]           # modules whose build is the proof check
    THEOREMS      = ["RedunModel.C14.enc_injective", ...]  # proof obligations (fully qualified)
    TRUSTED       = ["..."]                              # property specific trusted-base lines
    ASSUMPTIONS   = ["..."]
    RULE          = "how cases are generated, what makes one distinct and non-trivial"
    def run(ctx): ...                                    # correspondence + oracle search

`run(ctx)` uses the Ctx methods below.  It must derive every random choice from `ctx.rng`.
Verdict (see DESIGN.md 1.2):
  exit 0  clean (KNOWN-FINDING lines are allowed)
  exit 1  VIOLATION property=<id> replay=<path> [no-failing-input-found]
  exit 2  infrastructure error / time-out
"""
from __future__ import annotations

import fcntl
import hashlib
import importlib
import json
import os
import random
import re
import subprocess
import sys
import time
import traceback

VERIF = os.path.dirname(os.path.dirname(os.path.abspath(__file__)))
LEAN_DIR = os.path.join(VERIF, "lean")
REPO = os.environ.get("REDUN_REPO", "/repo")
ACCEPTED_AXIOMS = {"propext", "Classical.choice", "Quot.sound"}
BASE_TRUSTED = [
    "Lean 4.33.0 kernel (lake build; leanchecker re-check in the thorough tier)",
    "axioms accepted in property theorems: propext, Classical.choice, Quot.sound (audited by #print axioms on every run)",
    "no sorry/admit/native_decide/bv_decide/own axioms (source grep on every run)",
    "the Lean model is hand-written; it is tied to /repo's working tree only by this run's correspondence check "
    "(model driver vs real code on the same generated cases) and the property oracle run on the real code",
    "the Python harness (generators, canonicalisation, exact line comparison) is trusted not to mask differences",
]

FORBIDDEN = re.compile(r"\bsorry\b|\badmit\b|^\s*axiom\s|native_decide|bv_decide|implemented_by|\bunsafe\s|maxHeartbeats\s+0\b|set_option\s+debug\.skipKernelTC")


class Infra(Exception):
    pass


def _strip_comments(src: str) -> str:
    # remove nested block comments and line comments (string literals containing "--" are rare
    # in the models; a false hit only makes the audit stricter)
    out = []
    i, depth, n = 0, 0, len(src)
    while i < n:
        if src.startswith("/-", i):
            depth += 1
            i += 2
            continue
        if depth and src.startswith("-/", i):
            depth -= 1
            i += 2
            continue
        if depth:
            if src[i] == "\n":
                out.append("\n")
            i += 1
            continue
        if src.startswith("--", i):
            while i < n and src[i] != "\n":
                i += 1
            continue
        out.append(src[i])
        i += 1
    return "".join(out)


class Ctx:
    def __init__(self, mod, tier: str, seed: int, replay: str | None = None):
        self.mod = mod
        self.pid = mod.ID
        self.tier = tier
        self.seed = seed
        self.rng = random.Random(seed * 1000003 + int(hashlib.sha1(self.pid.encode()).hexdigest()[:6], 16))
        self.replay = replay
        self.t0 = time.time()
        self.evaluations = 0
        self.distinct: set = set()
        self.samples: list = []
        self.dist: dict = {}
        self.violations: list = []      # concrete failing inputs on the implementation
        self.mismatches: list = []      # model vs implementation disagreements
        self.proof_breaks: list = []    # theorem / build problems
        self.known_hits: dict = {}
        self.notes: list = []
        self.obligations = list(getattr(mod, "THEOREMS", []))
        self.discharged = 0
        self.axioms: dict = {}
        self.leanchecker = None
        self.search_boost = 1           # raised when a proof/correspondence break is seen
        kf_path = os.path.join(VERIF, "known_findings.json")
        self.known = []
        if os.path.exists(kf_path):
            self.known = [k for k in json.load(open(kf_path)).get("findings", []) if k.get("property") == self.pid]

    # ------------------------------------------------------------------ sizes
    def n(self, quick: int, thorough: int) -> int:
        """Budget helper: number of cases for the current tier (boosted after a break)."""
        return (quick if self.tier == "quick" else thorough) * self.search_boost

    def elapsed(self) -> float:
        """seconds since the property module's run() started (build and audit time excluded)"""
        return time.time() - getattr(self, "t_run", self.t0)

    # ------------------------------------------------------------------ accounting
    def case(self, key=None, sample=None, **dist):
        """Record one explored case. `key`: hashable identity of a non-trivial case (None = trivial)."""
        self.evaluations += 1
        if key is not None:
            try:
                self.distinct.add(key if isinstance(key, (str, int, tuple)) else repr(key))
            except TypeError:
                self.distinct.add(repr(key))
        if sample is not None and len(self.samples) < 6:
            self.samples.append(sample)
        for k, v in dist.items():
            d = self.dist.setdefault(k, {})
            d[str(v)] = d.get(str(v), 0) + 1

    def count(self, k, v=1, n=1):
        d = self.dist.setdefault(k, {})
        d[str(v)] = d.get(str(v), 0) + n

    def note(self, s: str):
        self.notes.append(s)

    # ------------------------------------------------------------------ findings
    def violation(self, signature: str, what: str, case, expected=None, actual=None, kind="input"):
        """The property's own oracle failed on the real implementation for a concrete case."""
        for k in self.known:
            if k.get("status") == "known" and k.get("signature") == signature:
                self.known_hits.setdefault(signature, {"what": k.get("what", what), "case": case, "n": 0})["n"] += 1
                return "known"
        # keep the smallest few per signature
        same = [v for v in self.violations if v["signature"] == signature]
        if len(same) < 3:
            self.violations.append(dict(signature=signature, what=what, case=case, expected=expected,
                                        actual=actual, kind=kind))
        return "new"

    def mismatch(self, what: str, case, model, impl, signature: str = "correspondence"):
        """Model and implementation disagree on a case (not by itself a violation)."""
        for k in self.known:
            if k.get("status") == "known" and k.get("signature") == signature:
                self.known_hits.setdefault(signature, {"what": k.get("what", what), "case": case, "n": 0})["n"] += 1
                return "known"
        if len(self.mismatches) < 5:
            self.mismatches.append(dict(what=what, case=case, model=model, impl=impl, signature=signature))
        else:
            self.mismatches.append(None)
        self.search_boost = max(self.search_boost, 4)
        return "new"

    def expect_known(self, signature: str, reproduced: bool, case=None, what: str = ""):
        """A listed finding's witness was replayed on the implementation.
        reproduced=True  -> counts as KNOWN-FINDING hit (if listed) else a violation
        reproduced=False -> if the finding is listed as known the model's refuted witness is stale:
                            correspondence break (the implementation changed)."""
        listed = [k for k in self.known if k.get("signature") == signature]
        if reproduced:
            return self.violation(signature, what or signature, case)
        if any(k.get("status") == "known" for k in listed):
            self.mismatches.append(dict(what="listed known finding no longer reproduces on the implementation "
                                             "(model witness stale): " + signature, case=case, model="fails", impl="passes",
                                        signature=signature))
        return "gone"

    # ------------------------------------------------------------------ lean
    def _lake(self, args, timeout=1800, input=None):
        env = dict(os.environ)
        env.pop("LEAN_PATH", None)
        return subprocess.run(["lake"] + args, cwd=LEAN_DIR, capture_output=True, text=True, timeout=timeout,
                              input=input, env=env)

    def lean_build(self):
        mods = list(getattr(self.mod, "LEAN_MODULES", []))
        drivers = list(getattr(self.mod, "LEAN_DRIVERS", []))
        os.makedirs(os.path.join(LEAN_DIR, ".lake"), exist_ok=True)
        with open(os.path.join(LEAN_DIR, ".lake", "verif.lock"), "w") as lk:
            fcntl.flock(lk, fcntl.LOCK_EX)
            for gen in getattr(self.mod, "GENERATORS", []):
                gen(self)       # translators regenerate Generated/*.lean from /repo
            if mods:
                r = self._lake(["build"] + mods)
                if r.returncode != 0:
                    self.proof_breaks.append(dict(theorem="lake build " + " ".join(mods),
                                                  detail=(r.stdout + r.stderr)[-3000:]))
                    return False
        return True

    def lean_audit(self):
        # 1. source grep
        hits = []
        for root, _, files in os.walk(LEAN_DIR):
            if ".lake" in root:
                continue
            for f in files:
                if f.endswith(".lean"):
                    p = os.path.join(root, f)
                    src = _strip_comments(open(p, encoding="utf-8").read())
                    for i, line in enumerate(src.splitlines(), 1):
                        if FORBIDDEN.search(line):
                            hits.append(f"{os.path.relpath(p, LEAN_DIR)}:{i}: {line.strip()[:120]}")
        if hits:
            self.proof_breaks.append(dict(theorem="source audit", detail="\n".join(hits[:20])))
        # 2. #print axioms
        if not self.obligations:
            return
        adir = os.path.join(LEAN_DIR, ".lake", "audit")
        os.makedirs(adir, exist_ok=True)
        path = os.path.join(adir, f"{self.pid}.lean")
        with open(path, "w") as f:
            for m in self.mod.LEAN_MODULES:
                f.write(f"import {m}\n")
            for t in self.obligations:
                f.write(f"#print axioms {t}\n")
        r = self._lake(["env", "lean", path])
        out = r.stdout + r.stderr
        found = {}
        for m in re.finditer(r"'([^']+)' depends on axioms: \[([^\]]*)\]", out, re.S):
            found[m.group(1)] = {a.strip() for a in m.group(2).replace("\n", " ").split(",") if a.strip()}
        for m in re.finditer(r"'([^']+)' does not depend on any axioms", out):
            found[m.group(1)] = set()
        for t in self.obligations:
            if t in found:
                self.axioms[t] = sorted(found[t])
                bad = found[t] - ACCEPTED_AXIOMS
                if bad:
                    self.proof_breaks.append(dict(theorem=t, detail="unaccepted axioms: " + ", ".join(sorted(bad))))
                else:
                    self.discharged += 1
            else:
                self.proof_breaks.append(dict(theorem=t, detail="theorem not found in build: " + out[-800:]))

    def lean_checker(self):
        mods = list(getattr(self.mod, "LEAN_MODULES", []))
        if not mods:
            return
        try:
            r = self._lake(["env", "leanchecker"] + mods, timeout=1500)
            self.leanchecker = "ok" if r.returncode == 0 else "FAILED: " + (r.stdout + r.stderr)[-500:]
            if r.returncode != 0:
                self.proof_breaks.append(dict(theorem="leanchecker " + " ".join(mods), detail=self.leanchecker))
        except subprocess.TimeoutExpired:
            self.leanchecker = "timeout"

    def model(self, driver: str, lines: list[str], timeout=900) -> list[str]:
        """Run the model driver lean/Driver/<driver>.lean on the request lines; one reply per line."""
        if not lines:
            return []
        for ln in lines:
            if "\n" in ln:
                raise Infra("newline inside protocol line")
        inp = "\n".join(lines) + "\n"
        exe_name = "drv_" + driver.lower()
        lakefile = open(os.path.join(LEAN_DIR, "lakefile.toml")).read()
        if f'name = "{exe_name}"' in lakefile and not os.environ.get("VERIF_NO_EXE"):
            with open(os.path.join(LEAN_DIR, ".lake", "verif.lock"), "w") as lk:
                fcntl.flock(lk, fcntl.LOCK_EX)
                b = self._lake(["build", exe_name])
            if b.returncode != 0:
                raise Infra(f"building {exe_name} failed: {(b.stdout + b.stderr)[-2000:]}")
            r = subprocess.run([os.path.join(LEAN_DIR, ".lake", "build", "bin", exe_name)], input=inp,
                               capture_output=True, text=True, timeout=timeout)
        else:
            r = self._lake(["env", "lean", "--run", f"Driver/{driver}.lean"], timeout=timeout, input=inp)
        if r.returncode != 0:
            raise Infra(f"model driver {driver} failed: {(r.stdout + r.stderr)[-2000:]}")
        out = r.stdout.split("\n")
        if out and out[-1] == "":
            out.pop()
        if len(out) != len(lines):
            raise Infra(f"model driver {driver}: {len(lines)} requests, {len(out)} replies; tail: {out[-3:]}")
        return out


# ---------------------------------------------------------------------- protocol helpers
def hx(s) -> str:
    if isinstance(s, str):
        s = s.encode("utf-8", "surrogatepass")
    return s.hex()


def sx(obj) -> str:
    """Python -> S-expression text.  int -> i.., str -> s<hex>, bytes -> b<hex>, None -> N,
    bool -> T/F, list/tuple -> ( ... ); a `Raw` string is emitted verbatim (operation names)."""
    if isinstance(obj, Raw):
        return str(obj)
    if obj is None:
        return "N"
    if obj is True:
        return "T"
    if obj is False:
        return "F"
    if isinstance(obj, int):
        return "i%d" % obj
    if isinstance(obj, str):
        return "s" + hx(obj)
    if isinstance(obj, (bytes, bytearray)):
        return "b" + bytes(obj).hex()
    if isinstance(obj, (list, tuple)):
        return "(" + " ".join(sx(o) for o in obj) + ")"
    raise TypeError("sx: " + repr(type(obj)))


class Raw(str):
    pass


def unsx(text: str):
    """S-expression text -> Python (inverse of sx; bare atoms come back as Raw)."""
    toks = text.replace("(", " ( ").replace(")", " ) ").split()
    stack = [[]]
    for t in toks:
        if t == "(":
            stack.append([])
        elif t == ")":
            x = stack.pop()
            stack[-1].append(x)
        else:
            stack[-1].append(_atom(t))
    if len(stack) != 1:
        raise ValueError("unbalanced: " + text[:100])
    return stack[0]


def _atom(t):
    if t == "N":
        return None
    if t == "T":
        return True
    if t == "F":
        return False
    if t[0] == "i" and re.fullmatch(r"i-?\d+", t):
        return int(t[1:])
    if t[0] == "s" and re.fullmatch(r"s([0-9a-f]{2})*", t):
        return bytes.fromhex(t[1:]).decode("utf-8", "surrogatepass")
    if t[0] == "b" and re.fullmatch(r"b([0-9a-f]{2})*", t):
        return bytes.fromhex(t[1:])
    return Raw(t)


def errname(e: BaseException) -> str:
    return "!" + type(e).__name__


# ---------------------------------------------------------------------- main
def run_check(pid: str, tier: str, seed: int, replay: str | None) -> int:
    t0 = time.time()
    sys.path.insert(0, os.path.join(VERIF, "harness"))
    if REPO not in sys.path:
        sys.path.insert(0, REPO)
    mod = importlib.import_module(f"props.{pid}")
    ctx = Ctx(mod, tier, seed, replay)
    rc = 0
    try:
        ok = ctx.lean_build()
        if ok:
            ctx.lean_audit()
            if tier == "thorough" and not os.environ.get("VERIF_SKIP_LEANCHECKER"):
                ctx.lean_checker()
        if ctx.proof_breaks:
            ctx.search_boost = 4
        ctx.t_run = time.time()
        if replay:
            case = json.load(open(replay))
            if hasattr(mod, "replay"):
                mod.replay(ctx, case)
            else:
                ctx.note("property module has no replay(); running the normal check")
                mod.run(ctx)
        else:
            mod.run(ctx)
            if (ctx.mismatches or ctx.proof_breaks) and not ctx.violations and hasattr(mod, "search"):
                mod.search(ctx)         # extended failing-input search on the implementation
    except subprocess.TimeoutExpired as e:
        print(f"INFRA property={pid} timeout: {e}", flush=True)
        rc = 2
    except Infra as e:
        print(f"INFRA property={pid} {e}", flush=True)
        rc = 2
    except Exception:
        traceback.print_exc()
        print(f"INFRA property={pid} harness exception", flush=True)
        rc = 2

    # ------------------------------------------------------------ verdict
    os.makedirs(os.path.join(VERIF, "replays"), exist_ok=True)
    for sig, h in ctx.known_hits.items():
        print(f"KNOWN-FINDING: property={pid} {h['what']} [signature={sig}; {h['n']} case(s) this run]")
    nviol = 0
    if rc != 2:
        def write_replay(i, body):
            path = os.path.join("replays", f"{pid}-{seed}-{i}.json")
            body.update(property=pid, seed=seed, tier=tier, cmd=f"./check {pid} --replay {path}")
            with open(os.path.join(VERIF, path), "w") as f:
                json.dump(body, f, indent=1, default=repr)
            return path
        i = 0
        for v in ctx.violations:
            i += 1
            p = write_replay(i, dict(kind=v["kind"], signature=v["signature"], what=v["what"], case=v["case"],
                                     expected=v["expected"], actual=v["actual"],
                                     theorem_or_correspondence=[b["theorem"] for b in ctx.proof_breaks] or None))
            print(f"VIOLATION property={pid} replay={p}")
            nviol += 1
        if not ctx.violations and (ctx.mismatches or ctx.proof_breaks):
            i += 1
            mm = [m for m in ctx.mismatches if m]
            p = write_replay(i, dict(kind="no-failing-input-found",
                                     theorem_or_correspondence=[b["theorem"] for b in ctx.proof_breaks] +
                                     ["correspondence: " + m["what"] for m in mm],
                                     proof_breaks=ctx.proof_breaks, mismatches=mm,
                                     searched=dict(evaluations=ctx.evaluations, boost=ctx.search_boost)))
            print(f"VIOLATION property={pid} replay={p} no-failing-input-found")
            nviol += 1
        if nviol:
            rc = 1

    # ------------------------------------------------------------ evidence
    cov = dict(
        obligations=len(ctx.obligations), discharged=ctx.discharged,
        checker_cmd=("cd lean && lake build " + " ".join(getattr(mod, "LEAN_MODULES", [])) +
                     " && lake env lean .lake/audit/%s.lean  # #print axioms of every obligation" % pid +
                     (" && lake env leanchecker " + " ".join(getattr(mod, "LEAN_MODULES", [])) if tier == "thorough" else "")),
        trusted_base=BASE_TRUSTED + list(getattr(mod, "TRUSTED", [])),
        theorems=ctx.obligations, axioms=ctx.axioms,
        evaluations=ctx.evaluations, distinct_nontrivial=len(ctx.distinct),
        rule=getattr(mod, "RULE", ""), samples=ctx.samples or ["<no case recorded>"],
        distribution=ctx.dist, correspondence_mismatches=len(ctx.mismatches),
        proof_breaks=[b["theorem"] for b in ctx.proof_breaks],
        known_findings_hit=sorted(ctx.known_hits), notes=ctx.notes, exit_code=rc,
    )
    if ctx.leanchecker:
        cov["leanchecker"] = ctx.leanchecker
    ev = dict(property_id=pid, tier=tier, seed=seed, level="proof", coverage=cov,
              assumptions=list(getattr(mod, "ASSUMPTIONS", [])), wall_s=round(time.time() - t0, 2),
              violations=nviol)
    os.makedirs(os.path.join(VERIF, "evidence"), exist_ok=True)
    with open(os.path.join(VERIF, "evidence", f"{pid}.json"), "w") as f:
        json.dump(ev, f, indent=1, default=repr)
    print(f"[{pid}] tier={tier} seed={seed} obligations={len(ctx.obligations)} discharged={ctx.discharged} "
          f"cases={ctx.evaluations} distinct={len(ctx.distinct)} mismatches={len(ctx.mismatches)} "
          f"violations={nviol} known={len(ctx.known_hits)} wall={time.time() - t0:.1f}s exit={rc}")
    return rc
