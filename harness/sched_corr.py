"""
Shared correspondence machinery for the scheduler-core properties (C05 C06 C08 C09 C28):
generated job-tree programs run (a) on the real redun Scheduler under a controlled schedule
(ctl_sched) and (b) on the Lean model `SchedCore` (Driver/Sched.lean) with the same choices;
the per-event summaries (limits_used, jobs waiting for limits, jobs in flight, event queue) are
compared line by line.

A program is a list of task definitions K0..Kn (K0 = root).  Definition Ki: does it raise, and its
call sites (each: callee index > i, call-time options).  Unfolding the call sites from K0 gives the
job tree; every tree position is one `Spec` of the model (index = position in BFS order).
"""
from __future__ import annotations

import json

from redun import task
from redun.expression import Expression
from redun.utils import iter_nested_value

import ctl_sched
from core import Raw, sx

RES = ["r0", "r1", "r2"]


# ---------------------------------------------------------------------------------------- programs
class Site:
    """one call site inside a task body"""

    def __init__(self, callee, limits=None, scope=None, prov=None, executor=None, ctx=None, cse_off=False, same=False):
        self.callee = callee          # index of the called definition
        self.limits = limits          # None | list of names | dict name -> count
        self.scope = scope            # None | "NONE" | "CSE" | "BACKEND"
        self.prov = prov              # None | False
        self.executor = executor      # None | "nope"
        self.ctx = ctx                # None | dict (update_context)
        self.cse_off = cse_off        # allowed_cache_results without CSE
        self.same = same              # the very same expression as the previous site of this body (one Job: `_pending_expr`)

    def to_json(self):
        return {k: v for k, v in self.__dict__.items() if v is not None and not (v is False and k != "prov")}


class Defn:
    def __init__(self, fails=False, sites=(), limits=None, reads_ctx=False, lazy_ctx=False):
        self.fails = fails
        self.sites = list(sites)
        self.limits = limits          # definition-time limits option
        self.reads_ctx = reads_ctx    # signature (a=get_context("a", 0), b=get_context("b", 0)); returns them
        self.lazy_ctx = lazy_ctx      # the RESULT contains get_context("a", 0), get_context("b", 0): evaluated under the job's
        #                               context after the task ran - same eval hash in every context, context-dependent value

    def to_json(self):
        d = {"fails": self.fails, "limits": self.limits, "sites": [s.to_json() for s in self.sites]}
        if self.reads_ctx:
            d["reads_ctx"] = True
        if self.lazy_ctx:
            d["lazy_ctx"] = True
        return d


class Program:
    ns_count = [0]

    def __init__(self, defs, limits_cfg, root_site=None):
        Program.ns_count[0] += 1
        self.ns = "vp%d" % Program.ns_count[0]         # task namespace: stable across runs of this program
        self.versions = {}                              # callee index -> version string (edits)
        self.defs = defs
        self.limits_cfg = limits_cfg          # configured limits (name -> int); unconfigured = 1
        self.root_site = root_site or Site(0)
        self.specs = []                       # filled by unfold()
        self.unfold()

    def to_json(self):
        return {"limits_cfg": self.limits_cfg, "defs": [d.to_json() for d in self.defs],
                "root": self.root_site.to_json()}

    # -- unfolding into the model's Spec list (BFS; index = spec id)
    def unfold(self, max_specs=60):
        self.specs = []
        ctx_ids = {json.dumps({}, sort_keys=True): 0}
        key_ids = {}

        def key_id(k):
            if k not in key_ids:
                key_ids[k] = len(key_ids)
            return key_ids[k]

        def ctx_id(c):
            k = json.dumps(c, sort_keys=True)
            if k not in ctx_ids:
                ctx_ids[k] = len(ctx_ids)
            return ctx_ids[k]

        def mk(site, parent_ctx, parent_prov):
            d = self.defs[site.callee]
            ctx = dict(parent_ctx)
            if site.ctx:
                ctx.update(site.ctx)
            prov = parent_prov and (site.prov is not False)
            scope = (site.scope or "BACKEND").lower()
            if not prov:
                scope = "none"
            lim = site.limits if site.limits is not None else d.limits
            if lim is None:
                lim = {}
            if isinstance(lim, list):
                lim = {n: 1 for n in lim}
            kk = (site.callee, ctx.get("a", 0), ctx.get("b", 0)) if d.reads_ctx else (site.callee,)
            return dict(site=site, callee=site.callee, key=key_id(kk), ctxd=ctx, ctx=ctx_id(ctx), limits=lim, scope=scope,
                        cseOk=not site.cse_off, prov=prov, execOk=site.executor is None, fails=d.fails,
                        children=[])

        root = mk(self.root_site, {}, True)
        self.specs.append(root)
        i = 0
        while i < len(self.specs):
            sp = self.specs[i]
            d = self.defs[sp["callee"]]
            if not d.fails:
                sp["site_child"] = []          # site index -> index into children (equal expressions share one child job)
                for n, st in enumerate(d.sites):
                    if st.same and n > 0:
                        sp["site_child"].append(sp["site_child"][-1])
                        continue
                    if len(self.specs) >= max_specs:
                        raise ValueError("program too large")
                    ch = mk(st, sp["ctxd"], sp["prov"])
                    sp["site_child"].append(len(sp["children"]))
                    sp["children"].append(len(self.specs))
                    self.specs.append(ch)
            i += 1

    def expected(self, i=0):
        """value the call at tree position i denotes (reference evaluation, context-exact); raises KeyError
        if a call in its subtree fails"""
        sp = self.specs[i]
        d = self.defs[sp["callee"]]
        if d.fails:
            raise KeyError("boom%d" % sp["callee"])
        if not sp["execOk"]:
            raise KeyError("executor")
        head = ["k%d" % sp["callee"]]
        if d.reads_ctx or d.lazy_ctx:
            head += [sp["ctxd"].get("a", 0), sp["ctxd"].get("b", 0)]
        return head + [self.expected(sp["children"][k]) for k in sp.get("site_child", [])]

    def model_specs(self, pre=None):
        out = []
        for i, sp in enumerate(self.specs):
            lims = [[RES.index(n), c] for n, c in sp["limits"].items()]
            out.append([sp["key"], sp["ctx"], lims, Raw(sp["scope"]), sp["cseOk"], sp["prov"], sp["execOk"],
                        sp["fails"], Raw((pre or {}).get(i, "miss")), list(sp["children"])])
        return out

    def request(self, choices, dryrun=False, pre=None):
        lim = [[RES.index(n), v] for n, v in self.limits_cfg.items()]
        return ("run " + sx(bool(dryrun)) + " " + sx([Raw("lim")] + lim) + " " + sx([Raw("specs")] + self.model_specs(pre)) + " " +
                sx([Raw("res")] + list(range(len(RES)))) + " (ch " + " ".join(choices) + ")")


def gen_program(rng, n_defs=None, max_sites=3, p_fail=0.15, p_limits=0.6, p_opt=0.25, p_ctx=0.15, p_dup=0.5,
                allow_fail=True, allow_ctx=True, allow_optout=True, allow_badexec=True, p_same=0.0):
    """Random program.  Duplicated calls (same callee from several sites) are frequent on purpose."""
    for _ in range(50):
        n = n_defs or rng.choice([2, 3, 3, 4, 4, 5, 6])
        defs = []
        for i in range(n):
            fails = allow_fail and i > 0 and rng.random() < p_fail
            lim = None
            if rng.random() < p_limits:
                lim = rng.choice([["r0"], ["r0"], ["r1"], ["r0", "r1"], {"r0": 2}, {"r0": 1, "r2": 1}, {"r1": 2}])
            sites = []
            if i < n - 1 and not fails:
                for _ in range(rng.choice([0, 1, 2, 2, 3][:max_sites + 2])):
                    callee = rng.randrange(i + 1, n)
                    if sites and rng.random() < p_dup:
                        callee = rng.choice(sites).callee
                    st = Site(callee)
                    if rng.random() < p_opt:
                        st.limits = rng.choice([[], ["r0"], ["r1"], {"r0": 2}, ["r0", "r1"], {"r2": 1}])
                    if allow_optout and rng.random() < p_opt / 2:
                        st.scope = rng.choice(["NONE", "CSE", "CSE"])
                    if allow_optout and rng.random() < p_opt / 3:
                        st.prov = False
                    if allow_badexec and rng.random() < 0.06:
                        st.executor = "nope"
                    if allow_ctx and rng.random() < p_ctx:
                        st.ctx = rng.choice([{"a": 1}, {"a": 2}, {"b": 1}, {"a": 1}, {"a": 0}])
                    sites.append(st)
                    if p_same and rng.random() < p_same:
                        sites.append(Site(callee, same=True))       # the same expression once more
            reads = allow_ctx and not sites and not fails and rng.random() < 0.5
            defs.append(Defn(fails, sites, lim, reads_ctx=reads))
        cfg = {}
        for r in RES:
            if rng.random() < 0.7:
                cfg[r] = rng.choice([1, 1, 2, 2, 3])
        try:
            p = Program(defs, cfg)
        except ValueError:
            continue
        if len(p.specs) >= 2:
            return p
    return Program([Defn(False, [Site(1), Site(1)]), Defn(False, [], ["r0"])], {"r0": 1})


def gen_wide(rng, p_dup=0.15):
    """Wide programs: one parent with 3-7 limited children competing for one or two resources with limit >= 2
    (several jobs waiting at once, several completions before the waiting list is re-examined)."""
    n = rng.choice([3, 4, 5, 5, 6, 7])
    lim = rng.choice([2, 2, 3])
    defs = [Defn(False, [], None)]
    sites = []
    for i in range(1, n + 1):
        units = rng.choice([["r0"], ["r0"], {"r0": 1}, {"r0": 2}, ["r0", "r1"], {"r1": 1}])
        kids = []
        defs.append(Defn(rng.random() < 0.08, kids, units))
        st = Site(i if rng.random() > p_dup or i == 1 else rng.randrange(1, i))
        if rng.random() < 0.1:
            st.scope = "NONE"
        sites.append(st)
    if rng.random() < 0.4:           # an unlimited bystander
        defs.append(Defn(False, [], None))
        sites.insert(rng.randrange(len(sites) + 1), Site(len(defs) - 1))
    defs[0].sites = sites
    return Program(defs, {"r0": lim, "r1": rng.choice([1, 2])})


def gen_chain(rng, p_lazy=0.5, p_cse=0.3, ctxs=None):
    """Sequenced duplicates: a spine k0 -> k1 -> ... where every spine job also calls one shared leaf (the last definition),
    under a context / cache scope chosen per site.  The calls of the leaf are created at increasing depth, so a later one is
    looked up while an earlier twin is running, evaluating, resolved or long finalized, depending on the schedule."""
    ctxs = ctxs or [None, None, {"a": 1}, {"a": 1}, {"a": 2}, {"b": 1}]
    n = rng.choice([3, 4, 4, 5])
    kind = rng.random()
    leaf = Defn(False, [], rng.choice([None, None, ["r0"]]), reads_ctx=(kind >= p_lazy and kind < p_lazy + 0.2), lazy_ctx=kind < p_lazy)
    defs = []
    for i in range(n):
        sites = []
        for _ in range(rng.choice([1, 1, 2])):
            st = Site(n)
            st.ctx = rng.choice(ctxs)
            if rng.random() < p_cse:
                st.scope = "CSE"
            sites.append(st)
        if i < n - 1:
            nxt = Site(i + 1)
            if rng.random() < 0.3:
                nxt.ctx = rng.choice(ctxs)
            sites.insert(rng.randrange(len(sites) + 1), nxt)
        defs.append(Defn(False, sites, None))
    defs.append(leaf)
    return Program(defs, {"r0": rng.choice([1, 2])})


def feasible(p: Program) -> bool:
    """no job demands more of a resource than its configured limit"""
    return all(c <= p.limits_cfg.get(n, 1) for sp in p.specs for n, c in sp["limits"].items())


# ---------------------------------------------------------------------------------------- real tasks
def build_real(p: Program):
    """Define real redun tasks for the program (namespace p.ns, versions p.versions); returns the root expression."""
    from redun.context import get_context
    ns = p.ns
    tasks = {}

    def call(site, spec_id):
        t = tasks[site.callee]
        opts = {"vid": spec_id}
        if site.limits is not None:
            opts["limits"] = site.limits
        if site.scope is not None:
            opts["cache_scope"] = site.scope
        if site.prov is False:
            opts["prov"] = False
        if site.executor is not None:
            opts["executor"] = site.executor
        if site.cse_off:
            from redun.task import CacheResult
            opts["allowed_cache_results"] = {CacheResult.SINGLE, CacheResult.ULTIMATE}
        if site.ctx:
            t = t.update_context(site.ctx)
        return t.options(**opts)()

    def make(i, d):
        def run_body(extra):
            from redun.executors.local import get_current_job
            _s, job = get_current_job()
            my_spec = job._vid
            if d.fails:
                raise ValueError("boom%d" % i)
            kids = p.specs[my_spec]["children"]
            sc_ = p.specs[my_spec]["site_child"]
            first = {}
            for n in range(len(d.sites)):
                first.setdefault(sc_[n], n)
            return ["k%d" % i] + extra + [call(d.sites[first[sc_[n]]], kids[sc_[n]]) for n in range(len(d.sites))]
        if d.reads_ctx:
            def body(a=get_context("a", 0), b=get_context("b", 0)):
                return run_body([a, b])
        elif d.lazy_ctx:
            def body():
                return run_body([get_context("a", 0), get_context("b", 0)])
        else:
            def body():
                return run_body([])
        body.__name__ = "k%d" % i
        kw = {}
        if d.limits is not None:
            kw["limits"] = d.limits
        return task(name="k%d" % i, namespace=ns, version=p.versions.get(i, "1"), **kw)(body)

    for i in reversed(range(len(p.defs))):
        tasks[i] = make(i, p.defs[i])
    return call(p.root_site, 0), tasks


# ---------------------------------------------------------------------------------------- traced real run
def classify(item):
    qn = getattr(item, "__qualname__", "")
    cells = {}
    if getattr(item, "__closure__", None):
        cells = dict(zip(item.__code__.co_freevars, [c.cell_contents for c in item.__closure__]))
    job = cells.get("job")
    if "._exec_job." in qn:
        return ("X", job)
    if ".done_job." in qn:
        return ("D", job)
    if ".reject_job." in qn:
        return ("R", job)
    if "._resolve_job." in qn:
        return ("V", job)
    return ("?", job)


def vid_of(job):
    try:
        return job.expr._options.get("vid") if job.expr is not None else getattr(job, "_vid", None)
    except Exception:  # noqa: BLE001
        return getattr(job, "_vid", None)


class TracedCtl(ctl_sched.Ctl):
    """Ctl whose decision points are *every* `events_queue.get()`: either pop the head or let an in-flight job report.
    decisions: list of ints (taken modulo the number of enabled options) or an rng."""

    def __init__(self, decisions=None, rng=None, p_complete=0.3, **kw):
        super().__init__(**kw)
        self.decisions = list(decisions) if decisions is not None else None
        self.drng = rng
        self.p_complete = p_complete
        self.trace = []          # summaries after each choice
        self.choice_log = []     # 'p' | 'c<spec>'
        self.vids = {}
        self.opt_counts = []
        self.taken = []
        self.script = None
        self.all_jobs = []
        self.expr_jobs = {}      # (parent job, expression hash) -> jobs created for it

    def remember(self, job):
        """Spec id of a real Job = its position in the job tree (parent's spec, index among the parent's
        children in creation order).  Assigned the first time the job is seen (its `_exec_job` event is
        queued right after creation, before any collapse can replace it in `parent.child_jobs`)."""
        v = getattr(job, "_vid", None)
        if v is not None:
            return v
        par = job.parent_job
        if par is None:
            v = 0
        else:
            pv = self.remember(par)
            idx = next(i for i, c in enumerate(par.child_jobs) if c is job)
            kids = self.program.specs[pv]["children"] if pv >= 0 else []
            v = kids[idx] if idx < len(kids) else -1      # -1: a job the program has no position for
            if job.expr is not None:
                k = (id(par), job.expr.get_hash())
                self.expr_jobs.setdefault(k, []).append(job)
        self.all_jobs.append(job)                          # strong references: ids stay unique
        job._vid = v
        return v

    def on_submit(self, job, executor_name):
        self.remember(job)
        super().on_submit(job, executor_name)

    def summary(self):
        s = self.scheduler
        used = ",".join("%d:%d" % (i, s.limits_used.get(n, 0)) for i, n in enumerate(RES))
        w = ",".join(str(self.remember(j)) for j, _ in s._jobs_pending_limits)
        f = ",".join(str(v) for v in sorted(self.remember(j) for j in self.inflight))
        q = []
        for item in s.events_queue.q:
            kind, job = classify(item)
            q.append("%s:%s" % (kind, self.remember(job) if job is not None else "-"))
        fin = "F" if s.workflow_promise is None or s.workflow_promise.is_pending else "T"
        return "u=%s;w=%s;f=%s;q=%s;fin=%s" % (used, w, f, ",".join(q), fin)

    def decide(self, queue_nonempty):
        opts = (["p"] if queue_nonempty else []) + list(range(len(self.inflight)))
        if not opts:
            return None
        if self.script is not None:
            want = self.script.pop(0) if self.script else "p"
            if want == "p":
                k = 0 if queue_nonempty else 0
            else:
                idx = next((i for i, j in enumerate(self.inflight) if str(self.remember(j)) == want[1:]), 0)
                k = (1 if queue_nonempty else 0) + idx
        elif self.decisions is not None:
            d = self.decisions.pop(0) if self.decisions else 0
            k = d % len(opts)
        elif self.drng is not None:
            if queue_nonempty and (not self.inflight or self.drng.random() > self.p_complete):
                k = 0
            else:
                k = (1 if queue_nonempty else 0) + self.drng.randrange(len(self.inflight))
        else:
            k = 0
        self.opt_counts.append(len(opts))
        self.taken.append(k)
        return opts[k]


class TracedQueue(ctl_sched.CtlQueue):
    def get(self, block=True, timeout=None):
        ctl = self.ctl
        if ctl._ran_event:
            ctl._ran_event = False
            ctl.trace.append(ctl.summary())
            if ctl.after_event:
                ctl.after_event(ctl)
            wp = ctl.scheduler.workflow_promise
            if wp is not None and not wp.is_pending:
                pass
        while True:
            ctl.n_events += 1
            if ctl.max_events and ctl.n_events > ctl.max_events:
                raise ctl_sched.Hang("event budget exceeded")
            ch = ctl.decide(bool(self.q))
            if ch is None:
                raise ctl_sched.Hang("no queued event and no in-flight job while the workflow promise is pending")
            if ch == "p":
                ctl.choice_log.append("p")
                ctl._ran_event = True
                return self.q.popleft()
            job = ctl.inflight[ch]
            ctl.choice_log.append("c%s" % ctl.remember(job))
            ctl.inflight.pop(ch)
            ctl.completions.append(job)
            ctl.run_job(job)
            ctl.trace.append(ctl.summary())


def _run_job(self, job):
    sched = self.scheduler
    args, kwargs = job.args
    self.calls.append((job.task.fullname, getattr(job, "_vid", None)))
    try:
        from redun.executors.local import set_current_job
        set_current_job(sched, job)
        result = job.task.func(*args, **kwargs)
    except Exception as error:  # noqa: BLE001
        sched.reject_job(job, error)
    else:
        sched.done_job(job, result)


TracedCtl.run_job = _run_job


def _count_job_creations():
    """harness-side: count `Job` objects created (to see whether an `_evaluate_apply` call started a new evaluation)"""
    import redun.scheduler as rs
    if not hasattr(rs, "_verif_job_count"):
        rs._verif_job_count = [0]
        orig_init = rs.Job.__init__

        def init(self, *a, **kw):
            rs._verif_job_count[0] += 1
            orig_init(self, *a, **kw)
        rs.Job.__init__ = init
        orig_collapse = rs.Job.collapse

        def collapse(self, other_job):
            self._verif_collapsed = True      # harness-side mark: this job was deduplicated into a pending twin
            return orig_collapse(self, other_job)
        rs.Job.collapse = collapse
    return rs._verif_job_count


def attach_traced(ctl: TracedCtl, sched):
    ctl.attach(sched)
    sched.events_queue = TracedQueue(ctl)
    # the `_pending_expr` history: ("e", parent, expression hash, started a new Job?) | ("f", parent)
    from redun.expression import TaskExpression
    counter = _count_job_creations()
    ctl.memo_log, ctl.memo_refs, ids = [], [], {}

    def key(obj):
        if id(obj) not in ids:
            ids[id(obj)] = len(ids)
            ctl.memo_refs.append(obj)
        return ids[id(obj)]
    orig_apply, orig_final = sched._evaluate_apply, sched._finalize_job

    def traced_apply(expr, parent_job=None):
        n0 = counter[0]
        try:
            return orig_apply(expr, parent_job=parent_job)
        finally:
            if type(expr) is TaskExpression:
                ctl.memo_log.append(("e", key(parent_job), expr.get_hash(), counter[0] > n0))

    def traced_final(job):
        ctl.memo_log.append(("f", key(job)))
        return orig_final(job)
    sched._evaluate_apply, sched._finalize_job = traced_apply, traced_final
    return sched


def memo_request(log):
    """model request for a `_pending_expr` history and the real 'started' flags"""
    hs, ops, flags = {}, [], []
    for it in log:
        if it[0] == "e":
            ops.append("(e i%d i%d)" % (it[1], hs.setdefault(it[2], len(hs))))
            flags.append(it[3])
        else:
            ops.append("(f i%d)" % it[1])
    return "memo " + " ".join(ops), flags


def run_real(p: Program, decisions=None, rng=None, dryrun=False, sched=None, p_complete=0.3, after_event=None,
             max_events=20000, script=None):
    """Run program `p` on the real scheduler under a controlled schedule.
    Returns (status, payload, ctl, sched)."""
    from redun.scheduler import DryRunResult
    ctl_sched.quiet()
    expr, tasks = build_real(p)
    ctl = TracedCtl(decisions=decisions, rng=rng, p_complete=p_complete, after_event=after_event, max_events=max_events)
    ctl.program = p
    ctl.script = list(script) if script is not None else None
    if sched is None:
        sched = ctl_sched.make_scheduler(None, limits=p.limits_cfg)
    attach_traced(ctl, sched)
    try:
        status, payload = "ok", sched.run(expr, dryrun=dryrun)
    except ctl_sched.Hang as h:
        status, payload = "hang", str(h)
    except DryRunResult:
        status, payload = "dryrun", None
    except Exception as e:  # noqa: BLE001
        status, payload = "err", e
    # the loop ends right after the event that settles the workflow promise: record that last state
    if ctl._ran_event:
        ctl._ran_event = False
        ctl.trace.append(ctl.summary())
    return status, payload, ctl, sched


def compare_with_model(ctx, p: Program, ctl: TracedCtl, dryrun=False, pre=None, driver="Sched"):
    """Returns None when the model trace equals the real trace, else (index, model_line, real_line)."""
    req = p.request(ctl.choice_log, dryrun=dryrun, pre=pre)
    reply = ctx.model(driver, [req])[0]
    mt = [x.strip() for x in reply.split("|")]
    rt = ctl.trace
    for i in range(max(len(mt), len(rt))):
        a = mt[i] if i < len(mt) else "<none>"
        b = rt[i] if i < len(rt) else "<none>"
        if a != b:
            return (i, a, b, ctl.choice_log[: i + 1])
    return None


def has_expr(v):
    return any(isinstance(x, Expression) for x in iter_nested_value(v))


def compare_batch(ctx, items, driver="Sched"):
    """items: list of (program, ctl, dryrun, pre).  One driver process for all of them.
    Returns list of None | (index, model_line, real_line, choices)."""
    reqs = [p.request(ctl.choice_log, dryrun=dr, pre=pre) for (p, ctl, dr, pre) in items]
    replies = ctx.model(driver, reqs) if reqs else []
    out = []
    for (p, ctl, dr, pre), reply in zip(items, replies):
        mt = [x.strip() for x in reply.split("|")] if reply.strip() else []
        rt = ctl.trace
        d = None
        for i in range(max(len(mt), len(rt))):
            a = mt[i] if i < len(mt) else "<none>"
            b = rt[i] if i < len(rt) else "<none>"
            if a != b:
                d = (i, a, b, ctl.choice_log[: i + 1])
                break
        out.append(d)
    return out


def enumerate_schedules(run_fn, max_runs):
    """Depth-first enumeration of all decision sequences.  run_fn(decisions) must return the ctl of the run;
    ctl.opt_counts[i] = number of enabled options at decision point i, ctl.taken[i] = option taken."""
    prefix = []
    n = 0
    while n < max_runs:
        ctl = run_fn(list(prefix))
        n += 1
        yield ctl
        taken, counts = ctl.taken, ctl.opt_counts
        i = len(taken) - 1
        while i >= 0 and taken[i] + 1 >= counts[i]:
            i -= 1
        if i < 0:
            return
        prefix = taken[:i] + [taken[i] + 1]


def enumerate_schedules_pairs(run_fn, max_runs):
    """like enumerate_schedules for run_fn returning (ctl, extra); yields the pairs"""
    prefix = []
    n = 0
    while n < max_runs:
        ctl, extra = run_fn(list(prefix))
        n += 1
        yield ctl, extra
        taken, counts = ctl.taken, ctl.opt_counts
        i = len(taken) - 1
        while i >= 0 and taken[i] + 1 >= counts[i]:
            i -= 1
        if i < 0:
            return
        prefix = taken[:i] + [taken[i] + 1]
