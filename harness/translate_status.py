"""Translator for C33: regenerates lean/RedunModel/Generated/Status.lean from the source of
redun/backends/db/query.py (CallGraphQuery._job_status_term, _join_values, _join_jobs,
filter_job_statuses, filter_execution_statuses) and redun/backends/db/__init__.py (Job.calc_status,
Job.status, Execution._job_status2exec_status, Execution.calc_status, Execution.status).

Deliberately dumb: it understands a small grammar and raises TranslateError on anything else
(the check then reports a broken proof obligation and runs the failing-input search)."""
from __future__ import annotations

import ast
import os

STATUSES = {"RUNNING": ".running", "CACHED": ".cached", "FAILED": ".failed", "DONE": ".done"}
JOB_COLS = {"end_time": ".jobEndTime", "call_hash": ".jobCallHash", "cached": ".jobCached"}


class TranslateError(Exception):
    pass


def _fail(node, why):
    raise TranslateError("%s (line %s: %s)" % (why, getattr(node, "lineno", "?"), ast.unparse(node)[:120] if node is not None else ""))


def _find_class(tree, name):
    for n in tree.body:
        if isinstance(n, ast.ClassDef) and n.name == name:
            return n
    raise TranslateError("class %s not found" % name)


def _find_func(cls, name):
    for n in cls.body:
        if isinstance(n, ast.FunctionDef) and n.name == name:
            return n
    raise TranslateError("method %s.%s not found" % (cls.name, name))


def _body(fn):
    """Function body without the docstring."""
    b = list(fn.body)
    if b and isinstance(b[0], ast.Expr) and isinstance(b[0].value, ast.Constant) and isinstance(b[0].value.value, str):
        b = b[1:]
    return b


def _dump(nodes):
    if not isinstance(nodes, list):
        nodes = [nodes]
    return "\n".join(ast.dump(n) for n in nodes)


def _same(nodes, src, what):
    exp = ast.parse(src).body
    if _dump(nodes) != _dump(exp):
        raise TranslateError("%s no longer has the expected shape:\n  found:    %s\n  expected: %s" % (
            what, "; ".join(ast.unparse(n) for n in nodes)[:400], src.strip()[:400]))


# ------------------------------------------------------------------ SQL terms
class TermTr:
    def __init__(self, consts):
        self.consts = consts        # module-level string constants of query.py
        self.err_names = set()

    def col(self, node):
        if isinstance(node, ast.Attribute) and isinstance(node.value, ast.Name):
            if node.value.id == "Job" and node.attr in JOB_COLS:
                return JOB_COLS[node.attr]
            if node.value.id == "Value" and node.attr == "type":
                return ".valueType"
        _fail(node, "unsupported column")

    def strconst(self, node):
        if isinstance(node, ast.Constant) and isinstance(node.value, str):
            return node.value
        if isinstance(node, ast.Name) and node.id in self.consts:
            return self.consts[node.id]
        _fail(node, "unsupported comparison operand")

    def term(self, node):
        if isinstance(node, ast.BinOp) and isinstance(node.op, ast.BitAnd):
            return "(.and %s %s)" % (self.term(node.left), self.term(node.right))
        if isinstance(node, ast.BinOp) and isinstance(node.op, ast.BitOr):
            return "(.or %s %s)" % (self.term(node.left), self.term(node.right))
        if isinstance(node, ast.UnaryOp) and isinstance(node.op, ast.Invert):
            return "(.not %s)" % self.term(node.operand)
        if isinstance(node, ast.Compare) and len(node.ops) == 1:
            c = self.col(node.left)
            if c != ".valueType":
                _fail(node, "comparison on a column other than Value.type")
            s = self.strconst(node.comparators[0])
            self.err_names.add(s)
            if isinstance(node.ops[0], ast.Eq):
                return ".typeEqErr"
            if isinstance(node.ops[0], ast.NotEq):
                return ".typeNeErr"
            _fail(node, "unsupported comparison operator")
        if isinstance(node, ast.Call) and not node.keywords:
            f = node.func
            if isinstance(f, ast.Attribute) and f.attr in ("is_", "isnot", "is_not") and len(node.args) == 1:
                c = self.col(f.value)
                a = node.args[0]
                if not isinstance(a, ast.Constant) or not (a.value is None or a.value is True or a.value is False):
                    _fail(node, "is_/isnot with a non-literal")
                neg = f.attr != "is_"
                if a.value is None:
                    return "(%s %s)" % (".isNotNull" if neg else ".isNull", c)
                if c != ".jobCached":
                    _fail(node, "IS TRUE/FALSE on a non-Boolean column")
                t = "(%s %s)" % (".isTrue" if a.value is True else ".isFalse", c)
                return "(.not %s)" % t if neg else t
            if isinstance(f, ast.Attribute) and isinstance(f.value, ast.Name) and f.value.id == "sa" and f.attr in ("and_", "or_", "not_"):
                args = [self.term(a) for a in node.args]
                if f.attr == "not_":
                    if len(args) != 1:
                        _fail(node, "sa.not_ arity")
                    return "(.not %s)" % args[0]
                if len(args) < 1:
                    _fail(node, "empty sa.and_/or_")
                out = args[0]
                for a in args[1:]:
                    out = "(%s %s %s)" % (".and" if f.attr == "and_" else ".or", out, a)
                return out
        _fail(node, "unsupported filter expression")


def _status_chain(fn, var, leaf):
    """`if var == "X": <leaf> elif ... else: raise NotImplementedError(var)` -> {status: leaf(...)}"""
    body = _body(fn)
    if len(body) != 1 or not isinstance(body[0], ast.If):
        _fail(fn, "expected a single if/elif chain")
    out = {}
    node = body[0]
    while True:
        t = node.test
        if not (isinstance(t, ast.Compare) and isinstance(t.left, ast.Name) and t.left.id == var and len(t.ops) == 1
                and isinstance(t.ops[0], ast.Eq) and isinstance(t.comparators[0], ast.Constant)
                and t.comparators[0].value in STATUSES):
            _fail(t, "unsupported status test")
        s = t.comparators[0].value
        if s in out:
            _fail(t, "duplicate status branch")
        if len(node.body) != 1 or not isinstance(node.body[0], ast.Return):
            _fail(node, "branch is not a single return")
        out[s] = leaf(node.body[0].value)
        if len(node.orelse) == 1 and isinstance(node.orelse[0], ast.If):
            node = node.orelse[0]
            continue
        _same(node.orelse, "raise NotImplementedError(%s)" % var, "the final else of %s" % fn.name)
        break
    if set(out) != set(STATUSES):
        raise TranslateError("%s does not cover exactly RUNNING/CACHED/FAILED/DONE: %s" % (fn.name, sorted(out)))
    return out


def _joins(fn, attr_kw):
    """Join kinds of `self.clone(executions=<chain>, jobs=<chain>)` for keyword attr_kw."""
    body = _body(fn)
    if len(body) != 1 or not isinstance(body[0], ast.Return) or not isinstance(body[0].value, ast.Call):
        _fail(fn, "expected `return self.clone(...)`")
    call = body[0].value
    for kw in call.keywords:
        if kw.arg == attr_kw:
            kinds, node = [], kw.value
            while isinstance(node, ast.Call) and isinstance(node.func, ast.Attribute) and node.func.attr in ("join", "outerjoin"):
                kinds.append((".outer" if node.func.attr == "outerjoin" else ".inner", ast.unparse(node.args[0]),
                              ast.unparse(node.args[1]) if len(node.args) > 1 else ""))
                node = node.func.value
            base = ast.unparse(node)
            return list(reversed(kinds)), base
    _fail(fn, "keyword %s not found" % attr_kw)


# ------------------------------------------------------------------ Python side (display)
def _pycond(node, err_names):
    if isinstance(node, ast.UnaryOp) and isinstance(node.op, ast.Not):
        return "(.not %s)" % _pycond(node.operand, err_names)
    if isinstance(node, ast.BoolOp):
        parts = [_pycond(v, err_names) for v in node.values]
        out = parts[0]
        for p in parts[1:]:
            out = "(%s %s %s)" % (".and" if isinstance(node.op, ast.And) else ".or", out, p)
        return out
    if isinstance(node, ast.Attribute) and isinstance(node.value, ast.Name) and node.value.id == "self":
        if node.attr == "end_time":
            return ".endTimeTruthy"
        if node.attr == "cached":
            return ".cachedTruthy"
    if (isinstance(node, ast.Compare) and isinstance(node.left, ast.Name) and node.left.id == "result_type"
            and len(node.ops) == 1 and isinstance(node.ops[0], (ast.Eq, ast.NotEq))
            and isinstance(node.comparators[0], ast.Constant) and isinstance(node.comparators[0].value, str)):
        err_names.add(node.comparators[0].value)
        return ".resultIsErr" if isinstance(node.ops[0], ast.Eq) else "(.not .resultIsErr)"
    _fail(node, "unsupported condition in calc_status")


def _calc_status(fn, err_names):
    """if/elif chain assigning self._status = "X" (or returning "X"), then `return self._status`."""
    body = _body(fn)
    if not body or not isinstance(body[0], ast.If):
        _fail(fn, "expected an if/elif chain")
    assigns = all_assign = None
    rules, node = [], body[0]

    def leaf(stmts):
        if len(stmts) == 1 and isinstance(stmts[0], ast.Assign) and ast.unparse(stmts[0].targets[0]) == "self._status" \
                and isinstance(stmts[0].value, ast.Constant) and stmts[0].value.value in STATUSES:
            return STATUSES[stmts[0].value.value], True
        if len(stmts) == 1 and isinstance(stmts[0], ast.Return) and isinstance(stmts[0].value, ast.Constant) \
                and stmts[0].value.value in STATUSES:
            return STATUSES[stmts[0].value.value], False
        _fail(stmts[0] if stmts else fn, "unsupported branch body in calc_status")

    modes = set()
    while True:
        st, m = leaf(node.body)
        modes.add(m)
        rules.append((_pycond(node.test, err_names), st))
        if len(node.orelse) == 1 and isinstance(node.orelse[0], ast.If):
            node = node.orelse[0]
            continue
        default, m = leaf(node.orelse)
        modes.add(m)
        break
    if modes == {True}:
        _same(body[1:], "return self._status", "the tail of Job.calc_status")
    elif modes == {False}:
        if body[1:]:
            _fail(body[1], "statements after a returning chain")
    else:
        _fail(fn, "mixed assignment/return branches")
    return rules, default


def _exec_of_job(fn):
    """Interpret Execution._job_status2exec_status on None + the four statuses."""
    body = _body(fn)
    arg = fn.args.args[1].arg

    def test(node, v):
        if isinstance(node, ast.Compare) and isinstance(node.left, ast.Name) and node.left.id == arg and len(node.ops) == 1:
            op, c = node.ops[0], node.comparators[0]
            if isinstance(op, (ast.Is, ast.IsNot)) and isinstance(c, ast.Constant) and c.value is None:
                return (v is None) == isinstance(op, ast.Is)
            if isinstance(op, (ast.Eq, ast.NotEq)) and isinstance(c, ast.Constant) and (c.value is None or c.value in STATUSES):
                return (v == c.value) == isinstance(op, ast.Eq)
            if isinstance(op, (ast.In, ast.NotIn)) and isinstance(c, (ast.Set, ast.List, ast.Tuple)) and all(
                    isinstance(e, ast.Constant) and e.value in STATUSES for e in c.elts):
                return (v in {e.value for e in c.elts}) == isinstance(op, ast.In)
        if isinstance(node, ast.UnaryOp) and isinstance(node.op, ast.Not):
            return not test(node.operand, v)
        if isinstance(node, ast.Name) and node.id == arg:
            return bool(v)
        _fail(node, "unsupported test in _job_status2exec_status")

    def run(stmts, v):
        for s in stmts:
            if isinstance(s, ast.If):
                r = run(s.body if test(s.test, v) else s.orelse, v)
                if r is not None:
                    return r
            elif isinstance(s, ast.Return):
                if isinstance(s.value, ast.Constant) and s.value.value in STATUSES:
                    return s.value.value
                if isinstance(s.value, ast.Name) and s.value.id == arg:
                    if v is None:
                        _fail(s, "returns None")
                    return v
                _fail(s, "unsupported return")
            else:
                _fail(s, "unsupported statement in _job_status2exec_status")
        return None

    table = {}
    for v in [None] + list(STATUSES):
        r = run(body, v)
        if r is None:
            _fail(fn, "falls off the end for %r" % v)
        table[v] = r
    return table


def _recorder(itree):
    """Shape of the Job row written by record_job_start / record_job_end. Returns whether the start row carries
    `call_hash=job.call_hash`; anything else that touches end_time / cached / call_hash is outside the grammar."""
    be = _find_class(itree, "RedunBackendDb")
    start = _find_func(be, "record_job_start")
    ctor = [n for n in ast.walk(start) if isinstance(n, ast.Call) and isinstance(n.func, ast.Name) and n.func.id == "Job"]
    if len(ctor) != 1 or ctor[0].args:
        _fail(start, "record_job_start: expected exactly one Job(...) construction with keyword arguments")
    kws = {kw.arg: kw.value for kw in ctor[0].keywords}
    if None in kws:
        _fail(ctor[0], "record_job_start: Job(**...)")
    required = {"id", "start_time", "task_hash", "parent_id", "execution_id"}
    if not required <= set(kws):
        _fail(ctor[0], "record_job_start: Job(...) lacks %s" % sorted(required - set(kws)))
    extra = set(kws) - required
    writes = False
    for k in sorted(extra):
        if k == "call_hash" and ast.unparse(kws[k]) == "job.call_hash":
            writes = True
        else:
            _fail(ctor[0], "record_job_start: unsupported Job(..., %s=%s)" % (k, ast.unparse(kws[k])))
    for n in ast.walk(start):
        if isinstance(n, (ast.Assign, ast.AugAssign)):
            for t in (n.targets if isinstance(n, ast.Assign) else [n.target]):
                if isinstance(t, ast.Attribute) and t.attr in ("end_time", "cached", "call_hash"):
                    _fail(n, "record_job_start assigns a status column")
    end = _find_func(be, "record_job_end")
    assigns = {}
    for n in ast.walk(end):
        if isinstance(n, ast.Assign):
            for t in n.targets:
                if isinstance(t, ast.Attribute) and ast.unparse(t.value) == "db_job":
                    if t.attr in assigns:
                        _fail(n, "record_job_end assigns db_job.%s twice" % t.attr)
                    assigns[t.attr] = ast.unparse(n.value)
    if assigns != {"cached": "job.was_cached", "end_time": "now", "call_hash": "job.call_hash"}:
        _fail(end, "record_job_end no longer assigns exactly cached=job.was_cached, end_time=now, call_hash=job.call_hash: %r" % assigns)
    if "db_job = self.record_job_start(job, now=now)" not in ast.unparse(end):
        _fail(end, "record_job_end no longer creates a missing job through record_job_start")
    return writes


def _scheduler_job_end(repo):
    """Who reaches `record_job_end`, and with what: in redun/scheduler.py the end of a job is recorded once on the
    success path (`_resolve_job_main_thread`) and once on the failure path (`_reject_job_main_thread`); on the failure
    path the call follows, in the same block, `job.call_hash = self.backend.record_call_node(...)`. A call from inside
    an exception handler, a second call, or a call not preceded by the CallNode is outside the grammar (the recorder
    model's `jobEnd` always has a recorded CallNode)."""
    path = os.path.join(repo, "redun/scheduler.py")
    tree = ast.parse(open(path).read())
    sched = _find_class(tree, "Scheduler")

    def is_end(call):
        return isinstance(call, ast.Call) and ast.unparse(call.func).endswith("backend.record_job_end")

    callers = {}
    for fn in sched.body:
        if isinstance(fn, (ast.FunctionDef, ast.AsyncFunctionDef)):
            n = sum(1 for c in ast.walk(fn) if is_end(c))
            if n:
                callers[fn.name] = n
    if set(callers) != {"_resolve_job_main_thread", "_reject_job_main_thread"} or callers["_resolve_job_main_thread"] != 1:
        raise TranslateError("record_job_end is no longer called once from _resolve_job_main_thread and otherwise only from "
                             "_reject_job_main_thread: %r" % callers)
    for name in callers:
        fn = _find_func(sched, name)
        for h in ast.walk(fn):
            if isinstance(h, ast.ExceptHandler) and any(is_end(c) for c in ast.walk(h)):
                _fail(h, "%s records the end of a job from inside an exception handler" % name)
    # failure path: every record_job_end is reached with a recorded CallNode - either `job.call_hash =
    # ...record_call_node(...)` precedes it in its block, or it sits under an `if` that tests `job.call_hash`;
    # and no exception handler finishes the job on its own
    rej = _find_func(sched, "_reject_job_main_thread")
    seen = [0]

    def tests_call_hash(test):
        parts = test.values if isinstance(test, ast.BoolOp) and isinstance(test.op, ast.And) else [test]
        return any(ast.unparse(x) == "job.call_hash" for x in parts)

    def walk(block, known):
        for st in block:
            if isinstance(st, ast.Assign) and ast.unparse(st.targets[0]) == "job.call_hash":
                known = "backend.record_call_node" in ast.unparse(st.value)
            elif isinstance(st, ast.Expr) and is_end(st.value):
                seen[0] += 1
                if not known:
                    _fail(st, "_reject_job_main_thread: record_job_end is reached without a recorded CallNode "
                              "(no preceding job.call_hash = record_call_node(...), no enclosing `if job.call_hash`)")
            elif isinstance(st, ast.If):
                walk(st.body, known or tests_call_hash(st.test))
                walk(st.orelse, known)
            elif isinstance(st, ast.Try):
                walk(st.body, known)
                walk(st.orelse, known)
                walk(st.finalbody, known)
                for h in st.handlers:
                    for sub in ast.walk(h):
                        if isinstance(sub, ast.Return) or (isinstance(sub, ast.Call) and ast.unparse(sub.func) in (
                                "self._finalize_job", "job.reject", "job.resolve")):
                            _fail(h, "_reject_job_main_thread: an exception handler finishes the job on its own")
            elif isinstance(st, (ast.With, ast.For, ast.While)):
                walk(st.body, known)
                walk(getattr(st, "orelse", []), known)
            elif any(is_end(c) for c in ast.walk(st)):
                _fail(st, "_reject_job_main_thread: record_job_end in an unsupported statement")
        return known

    walk(rej.body, False)
    if seen[0] != callers["_reject_job_main_thread"]:
        _fail(rej, "_reject_job_main_thread: a record_job_end call sits where the translator does not look")


def translate(repo: str) -> str:
    qpath = os.path.join(repo, "redun/backends/db/query.py")
    ipath = os.path.join(repo, "redun/backends/db/__init__.py")
    qtree = ast.parse(open(qpath).read())
    itree = ast.parse(open(ipath).read())
    consts = {}
    for n in qtree.body:
        if isinstance(n, ast.Assign) and len(n.targets) == 1 and isinstance(n.targets[0], ast.Name) \
                and isinstance(n.value, ast.Constant) and isinstance(n.value.value, str):
            consts[n.targets[0].id] = n.value.value
    cgq = _find_class(qtree, "CallGraphQuery")
    tr = TermTr(consts)

    # --- _job_status_term
    fn = _find_func(cgq, "_job_status_term")
    terms = _status_chain(fn, fn.args.args[1].arg, tr.term)

    # --- joins
    jv_jobs, base = _joins(_find_func(cgq, "_join_values"), "jobs")
    if base != "self._jobs":
        raise TranslateError("_join_values: jobs chain does not start at self._jobs: " + base)
    jv_exec, base = _joins(_find_func(cgq, "_join_values"), "executions")
    if base != "self._executions":
        raise TranslateError("_join_values: executions chain does not start at self._executions: " + base)
    jj_exec, base = _joins(_find_func(cgq, "_join_jobs"), "executions")
    if base != "self._executions":
        raise TranslateError("_join_jobs: executions chain does not start at self._executions: " + base)
    exp_values = [("CallNode", "CallNode.call_hash == Job.call_hash"), ("Value", "Value.value_hash == CallNode.value_hash")]
    for what, chain in (("jobs", jv_jobs), ("executions", jv_exec)):
        if [(t, on) for _, t, on in chain] != exp_values:
            raise TranslateError("_join_values(%s): unexpected join targets/conditions: %r" % (what, chain))
    if [(t, on) for _, t, on in jj_exec] != [("Job", "Job.id == Execution.job_id")]:
        raise TranslateError("_join_jobs: unexpected join: %r" % (jj_exec,))

    # --- build(): job join before value join
    build = _find_func(cgq, "build")
    src = ast.unparse(build)
    i1, i2 = src.find("query._join_jobs()"), src.find("query._join_values()")
    if i1 < 0 or i2 < 0 or i1 > i2 or "if 'job' in self._joins" not in src or "if 'value' in self._joins" not in src:
        raise TranslateError("build(): job/value joins not found in the expected order")

    # --- filter_job_statuses
    fjs = _body(_find_func(cgq, "filter_job_statuses"))
    _same(fjs, """
assert job_statuses
job_clause = reduce(sa.or_, map(self._job_status_term, job_statuses))
def filter(query):
    return query.clone(jobs=query._jobs.filter(job_clause))
return self.clone(filter_types=self._filter_types & {"Job"}, filters=self._filters + [filter], joins=self._joins | {"value"})
""", "filter_job_statuses")

    # --- filter_execution_statuses: `if "X" in job_statuses: job_statuses.append("Y")` rules are translated
    fes = _body(_find_func(cgq, "filter_execution_statuses"))
    extra, rest = [], []
    for s in fes:
        if (isinstance(s, ast.If) and not s.orelse and isinstance(s.test, ast.Compare) and len(s.test.ops) == 1
                and isinstance(s.test.ops[0], ast.In) and isinstance(s.test.left, ast.Constant) and s.test.left.value in STATUSES
                and ast.unparse(s.test.comparators[0]) == "job_statuses" and len(s.body) == 1
                and isinstance(s.body[0], ast.Expr) and isinstance(s.body[0].value, ast.Call)
                and ast.unparse(s.body[0].value.func) == "job_statuses.append" and len(s.body[0].value.args) == 1
                and isinstance(s.body[0].value.args[0], ast.Constant) and s.body[0].value.args[0].value in STATUSES):
            extra.append((s.test.left.value, s.body[0].value.args[0].value))
        else:
            rest.append(s)
    _same(rest, """
assert execution_statuses
job_statuses = list(execution_statuses)
execution_clause = reduce(sa.or_, map(self._job_status_term, job_statuses))
def filter(query):
    return query.clone(executions=query._executions.filter(execution_clause))
return self.clone(filter_types=self._filter_types & {"Execution"}, joins=self._joins | {"job", "value"}, filters=self._filters + [filter], order_by="time")
""", "filter_execution_statuses")

    # --- display side
    job = _find_class(itree, "Job")
    err_names = set()
    rules, default = _calc_status(_find_func(job, "calc_status"), err_names)
    _same(_body([n for n in job.body if isinstance(n, ast.FunctionDef) and n.name == "status"][0]), """
if self._status:
    return self._status
result_type = self.call_node.value.type if self.call_node else None
return self.calc_status(result_type)
""", "Job.status")
    ex = _find_class(itree, "Execution")
    table = _exec_of_job(_find_func(ex, "_job_status2exec_status"))
    _same(_body(_find_func(ex, "calc_status")), """
job_status = self.job.calc_status(result_type) if self.job else None
self._status = self._job_status2exec_status(job_status)
return self._status
""", "Execution.calc_status")
    _same(_body([n for n in ex.body if isinstance(n, ast.FunctionDef) and n.name == "status"][0]), """
if self._status:
    return self._status
else:
    job_status = self.job.status if self.job else None
    self._status = self._job_status2exec_status(job_status)
    return self._status
""", "Execution.status")

    # --- recorder: which of end_time / cached / call_hash do record_job_start and record_job_end write?
    start_writes_call_hash = _recorder(itree)
    _scheduler_job_end(repo)

    names = tr.err_names | err_names
    if len(names) != 1:
        raise TranslateError("filter terms and calc_status do not use one and the same error type name: %r" % sorted(names))
    err_name = names.pop()

    L = []
    L.append("/- GENERATED by harness/translate_status.py from redun/backends/db/query.py and redun/backends/db/__init__.py.")
    L.append("   Do not edit: regenerated on every run of ./check C33. -/")
    L.append("import RedunModel.Model.StatusSql")
    L.append("namespace RedunModel.Generated.Status")
    L.append("open RedunModel.StatusSql")
    L.append("")
    L.append("/-- `CallGraphQuery._job_status_term` -/")
    L.append("def jobStatusTerm : St → Term")
    for s in STATUSES:
        L.append("  | %s => %s" % (STATUSES[s], terms[s]))
    L.append("")
    L.append("/-- `Job.calc_status`: first rule whose condition holds, else the default -/")
    L.append("def calcStatusRules : List (PyCond × St) := [%s]" % ", ".join("(%s, %s)" % r for r in rules))
    L.append("def calcStatusDefault : St := %s" % default)
    L.append("")
    L.append("/-- `Execution._job_status2exec_status` -/")
    L.append("def execOfJob : Option St → St")
    L.append("  | none => %s" % STATUSES[table[None]])
    for s in STATUSES:
        L.append("  | some %s => %s" % (STATUSES[s], STATUSES[table[s]]))
    L.append("")
    L.append("/-- `filter_execution_statuses`: `if X in job_statuses: job_statuses.append(Y)` -/")
    L.append("def execExtra : List (St × St) := [%s]" % ", ".join("(%s, %s)" % (STATUSES[a], STATUSES[b]) for a, b in extra))
    L.append("")
    L.append("/-- `_join_values` (job ⟕/⋈ call_node ⟕/⋈ value) and `_join_jobs` (execution ⋈ job) -/")
    L.append("def jobValueJoins : List Join := [%s]" % ", ".join(k for k, _, _ in jv_jobs))
    L.append("def execValueJoins : List Join := [%s]" % ", ".join(k for k, _, _ in jv_exec))
    L.append("def execJobJoin : Join := %s" % jj_exec[0][0])
    L.append("")
    L.append("def errorTypeName : String := %s" % _lean_str(err_name))
    L.append("")
    L.append("/-- `RedunBackendDb.record_job_start`: is the Job row inserted with `call_hash=job.call_hash`?")
    L.append("(`end_time` and `cached` are never given there; `record_job_end` assigns `cached = job.was_cached`,")
    L.append("`end_time = now`, `call_hash = job.call_hash` - both checked by the translator) -/")
    L.append("def startWritesCallHash : Bool := %s" % ("true" if start_writes_call_hash else "false"))
    L.append("")
    L.append("end RedunModel.Generated.Status")
    return "\n".join(L) + "\n"


def _lean_str(s):
    return '"' + s.replace("\\", "\\\\").replace('"', '\\"') + '"'


def generate(ctx):
    """GENERATORS entry: rewrite Generated/Status.lean (only if the text changed, to keep lake's no-op fast)."""
    import core
    out = os.path.join(core.LEAN_DIR, "RedunModel", "Generated", "Status.lean")
    try:
        text = translate(core.REPO)
    except (TranslateError, SyntaxError, OSError, IndexError, AttributeError) as e:
        ctx.proof_breaks.append(dict(theorem="translator harness/translate_status.py (Generated/Status.lean)",
                                     detail="%s: %s" % (type(e).__name__, e)))
        ctx.note("status translator failed: %s" % e)
        return
    old = open(out).read() if os.path.exists(out) else None
    if old != text:
        os.makedirs(os.path.dirname(out), exist_ok=True)
        with open(out, "w") as f:
            f.write(text)


if __name__ == "__main__":
    import sys
    print(translate(sys.argv[1] if len(sys.argv) > 1 else "/repo"))
