"""Shared helpers of the C20 / C21 checks (group gM).

* HashLog      – wraps redun.hashing.hash_struct (and every `from redun.hashing import hash_struct` alias in the
                 loaded redun modules) so that every digest comes with its pre-image; nothing in /repo is edited.
* CtlRun       – a real `redun.Scheduler()` on the in-memory sqlite backend whose event queue and executor are
                 replaced by deterministic ones: a task function runs on the scheduler thread when the event queue
                 is empty, and which in-flight job completes next is chosen by the caller's `random.Random`.
* JobWatch     – records the job tree the scheduler actually built (Job objects, not database rows): creation,
                 the call_hash a job carried when it entered resolve/reject (i.e. handed over by the cache or by a
                 CSE twin), and a snapshot of child_jobs / was_cached / prov / result at Job.resolve / Job.reject.
"""
from __future__ import annotations

import collections
import contextlib
import queue
import sys


# ----------------------------------------------------------------------------------------------- pre-image log
class HashLog:
    def __init__(self):
        self.pre = {}          # digest -> structure
        self._patched = []

    def install(self):
        import redun.hashing as hashing
        orig = hashing.hash_struct
        log = self.pre

        def hash_struct(struct):
            d = orig(struct)
            log.setdefault(d, struct)
            return d

        hash_struct.__wrapped__ = orig
        for name, mod in list(sys.modules.items()):
            if mod is None or not (name == "redun" or name.startswith("redun.")):
                continue
            if getattr(mod, "hash_struct", None) is orig:
                setattr(mod, "hash_struct", hash_struct)
                self._patched.append((mod, orig))
        return self

    def uninstall(self):
        for mod, orig in self._patched:
            setattr(mod, "hash_struct", orig)
        self._patched = []

    def __enter__(self):
        return self.install()

    def __exit__(self, *a):
        self.uninstall()


# ----------------------------------------------------------------------------------------------- controlled run
class Stuck(Exception):
    pass


class _CtlQueue:
    """Replacement of Scheduler.events_queue (only put/get/empty are used by the scheduler)."""

    def __init__(self, ctl):
        self.ctl = ctl
        self.q = collections.deque()

    def put(self, f):
        self.q.append(f)

    def empty(self):
        return not self.q and not self.ctl.inflight

    def get(self, timeout=None):
        if not self.q:
            if not self.ctl.inflight:
                raise Stuck("event queue empty, nothing in flight, workflow promise pending")
            self.ctl.complete_one()
        return self.q.popleft()


def make_executor(ctl):
    from redun.executors.base import Executor

    class CtlExecutor(Executor):
        def submit(self, job):
            ctl.inflight.append(job)

        def submit_script(self, job):           # never generated
            ctl.scheduler.reject_job(job, RuntimeError("no script tasks in this check"))

    return CtlExecutor("default")


_TEMPLATE = []


def fresh_backend():
    """A new in-memory sqlite backend in the state `Scheduler()` + `load()` leaves it in.  Running the alembic
    migrations takes ~0.25 s, so they run once per process on a template database whose pages are then copied
    (sqlite3 backup API) into each new in-memory database; `load(migrate=False)` still checks the schema version."""
    from redun.backends.db import RedunBackendDb
    if not _TEMPLATE:
        t = RedunBackendDb(db_uri="sqlite:///:memory:")
        t.load()
        _TEMPLATE.append(t)
    tmpl = _TEMPLATE[0]
    b = RedunBackendDb(db_uri="sqlite:///:memory:")
    orig = b.create_engine

    def create_engine():
        r = orig()
        src, dst = tmpl.engine.raw_connection(), b.engine.raw_connection()
        src.driver_connection.backup(dst.driver_connection)
        dst.close()
        src.close()
        return r

    b.create_engine = create_engine
    b.load(migrate=False)
    return b


class CtlRun:
    """policy: 'fifo' | 'lifo' | 'rand' – which in-flight job completes when the scheduler has nothing else to do."""

    def __init__(self, rng, policy="rand", backend=None):
        from redun import Scheduler
        self.rng = rng
        self.policy = policy
        self.inflight = []
        self.completions = 0
        # a fresh Scheduler per execution (a new process, as it were), possibly on an existing database
        self.scheduler = Scheduler(backend=backend if backend is not None else fresh_backend())
        self.backend = self.scheduler.backend
        self.scheduler.events_queue = _CtlQueue(self)
        ex = make_executor(self)
        ex.set_scheduler(self.scheduler)
        self.scheduler.executors["default"] = ex
        self.scheduler.log = lambda *a, **k: None      # keep the run quiet (no behaviour behind log())

    def complete_one(self):
        from redun.executors.local import set_current_job
        if self.policy == "fifo":
            i = 0
        elif self.policy == "lifo":
            i = len(self.inflight) - 1
        else:
            i = self.rng.randrange(len(self.inflight))
        job = self.inflight.pop(i)
        self.completions += 1
        args, kwargs = job.args
        try:
            set_current_job(self.scheduler, job)
            result = job.task.func(*args, **kwargs)
        except Exception as error:  # noqa: BLE001
            self.scheduler.reject_job(job, error)
        else:
            self.scheduler.done_job(job, result)

    def run(self, expr, **kw):
        """-> ('ok', value) | ('err', exception)"""
        try:
            return ("ok", self.scheduler.run(expr, **kw))
        except Stuck:
            raise
        except Exception as e:  # noqa: BLE001
            return ("err", e)

    @property
    def session(self):
        return self.scheduler.backend.session


# ----------------------------------------------------------------------------------------------- job tree watch
class JobRec:
    __slots__ = ("id", "seq", "task_name", "task_hash", "parent_id", "execution_id", "prov", "pre_call_hash",
                 "entered", "outcome", "children", "call_hash", "was_cached", "args_hash", "eval_args", "expr_args",
                 "result", "result_hash", "error", "tags_option", "expr_obj", "started", "error_tb")

    def __init__(self):
        for s in self.__slots__:
            setattr(self, s, None)


class JobWatch:
    """Monkeypatches redun.scheduler.Job / Scheduler methods (restored by uninstall)."""

    def __init__(self):
        self.jobs = {}          # id -> JobRec
        self.order = []         # creation order
        self.finish_order = []
        self.events = []        # ("S"|"F", job id) in the order the scheduler thread processed them
        self._saved = []

    def install(self):
        import redun.scheduler as sm
        watch = self
        Job, Scheduler = sm.Job, sm.Scheduler
        o_init, o_resolve, o_reject = Job.__init__, Job.resolve, Job.reject
        o_res_mt, o_rej_mt = Scheduler._resolve_job_main_thread, Scheduler._reject_job_main_thread
        o_exec_mt = Scheduler._exec_job_main_thread

        def init(self, task, expr, *a, **k):
            o_init(self, task, expr, *a, **k)
            r = JobRec()
            r.id, r.seq = self.id, len(watch.order)
            r.task_name, r.task_hash = task.fullname, task.hash
            pj = self.parent_job
            r.parent_id = pj.id if pj else None
            r.execution_id = self.execution.id if self.execution else None
            r.expr_obj = expr
            watch.jobs[self.id] = r
            watch.order.append(self.id)

        def snapshot(job, outcome, payload):
            r = watch.jobs[job.id]
            r.outcome = outcome
            r.children = [(c.id, c.call_hash) for c in job.child_jobs]
            r.call_hash = job.call_hash
            r.was_cached = job.was_cached
            r.prov = job.recording_provenance()
            r.args_hash = job.args_hash
            r.eval_args = job.eval_args
            r.expr_args = (job.expr.args, job.expr.kwargs) if job.expr is not None else None
            r.tags_option = list(job.get_option("tags", []))
            if outcome == "ok":
                r.result = payload
            else:
                r.error = payload
            watch.finish_order.append(job.id)
            watch.events.append(("F", job.id))

        def resolve(self, result):
            snapshot(self, "ok", result)
            return o_resolve(self, result)

        def reject(self, error):
            snapshot(self, "fail", error)
            return o_reject(self, error)

        def res_mt(self, job, result):
            r = watch.jobs[job.id]
            r.pre_call_hash, r.entered = job.call_hash, "resolve"
            return o_res_mt(self, job, result)

        def rej_mt(self, job, error, error_traceback=None, job_tags=[]):
            if job is not None:
                r = watch.jobs[job.id]
                r.pre_call_hash, r.entered = job.call_hash, "reject"
                r.error_tb = error_traceback
                if job.recording_provenance():
                    # the hash of the error value as the recorder is about to compute it (the exception's
                    # __traceback__ keeps growing while it propagates, so this cannot be recomputed later)
                    try:
                        error.redun_traceback = error_traceback     # first statement of the wrapped method
                        r.result_hash = sm.ErrorValue(error, error_traceback or sm.Traceback.from_error(error)).get_hash()
                    except Exception:  # noqa: BLE001
                        r.result_hash = None
            return o_rej_mt(self, job, error, error_traceback=error_traceback, job_tags=job_tags)

        def exec_mt(self, job, eval_args):
            if not watch.jobs[job.id].started:
                watch.jobs[job.id].started = True
                watch.events.append(("S", job.id))
            return o_exec_mt(self, job, eval_args)

        self._saved = [(Job, "__init__", o_init), (Job, "resolve", o_resolve), (Job, "reject", o_reject),
                       (Scheduler, "_resolve_job_main_thread", o_res_mt),
                       (Scheduler, "_reject_job_main_thread", o_rej_mt),
                       (Scheduler, "_exec_job_main_thread", o_exec_mt)]
        Job.__init__, Job.resolve, Job.reject = init, resolve, reject
        Scheduler._resolve_job_main_thread, Scheduler._reject_job_main_thread = res_mt, rej_mt
        Scheduler._exec_job_main_thread = exec_mt
        return self

    def uninstall(self):
        for cls, name, orig in self._saved:
            setattr(cls, name, orig)
        self._saved = []

    def __enter__(self):
        return self.install()

    def __exit__(self, *a):
        self.uninstall()


def release(backend):
    """free an in-memory backend (the sqlite database lives as long as the engine's connection pool)"""
    try:
        if backend.session is not None:
            backend.session.close()
        if backend.engine is not None:
            backend.engine.dispose()
    except Exception:  # noqa: BLE001
        pass


@contextlib.contextmanager
def instrumented():
    log, watch = HashLog(), JobWatch()
    log.install()
    watch.install()
    try:
        yield log, watch
    finally:
        watch.uninstall()
        log.uninstall()
