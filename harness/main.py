import argparse
import os
import sys

sys.path.insert(0, os.path.dirname(os.path.abspath(__file__)))
import core  # noqa: E402


def setup():
    """Build the Lean modules and driver executables of every READY property (offline, from files on disk)."""
    import glob
    import importlib
    import subprocess
    sys.path.insert(0, os.path.dirname(os.path.abspath(__file__)))
    mods, exes, gens = [], [], []
    lakefile = open(os.path.join(core.LEAN_DIR, "lakefile.toml")).read()
    for f in sorted(glob.glob(os.path.join(os.path.dirname(os.path.abspath(__file__)), "props", "C*.py"))):
        m = importlib.import_module("props." + os.path.basename(f)[:-3])
        claimed = __import__("json").load(open(os.path.join(os.path.dirname(os.path.abspath(__file__)), "claimed.json")))
        if getattr(m, "READY", False) and m.ID in claimed:
            mods += getattr(m, "LEAN_MODULES", [])
            gens += [(g, m) for g in getattr(m, "GENERATORS", [])]
            for d in getattr(m, "LEAN_DRIVERS", []):
                if f'name = "drv_{d.lower()}"' in lakefile:
                    exes.append("drv_" + d.lower())
    # regenerate the translated parts of the model from /repo's working tree (as every check does)
    for g, m in gens:
        try:
            g(core.Ctx(m, "quick", 0))
        except Exception as e:  # noqa: BLE001
            print("setup: generator of %s failed: %s" % (m.ID, e))
    targets = sorted(set(mods)) + sorted(set(exes))
    r = subprocess.run(["lake", "build"] + targets, cwd=core.LEAN_DIR)
    if r.returncode != 0:
        # a proof that no longer builds is reported by the property's own check (proof break), not by setup:
        # build what can be built so that the other checks are unaffected
        for t in targets:
            subprocess.run(["lake", "build", t], cwd=core.LEAN_DIR, capture_output=True)
        print("setup: some Lean targets failed to build; the affected checks will report it")
    sys.exit(0)


def main():
    if len(sys.argv) > 1 and sys.argv[1] == "--setup":
        setup()
    ap = argparse.ArgumentParser()
    ap.add_argument("property")
    ap.add_argument("--tier", default=os.environ.get("VERIF_TIER", "quick"), choices=["quick", "thorough"])
    ap.add_argument("--replay", default=None)
    ap.add_argument("--seed", type=int, default=int(os.environ.get("VERIF_SEED", "0") or 0))
    a = ap.parse_args()
    sys.exit(core.run_check(a.property, a.tier, a.seed, a.replay))


main()
